package core

import (
	"fmt"
	"runtime"
	"strings"
	"sync/atomic"
)

// Violation is one oracle failure. Signature is a short canonical string computed from
// the shape of the failing case, never from seed-dependent data.
type Violation struct {
	Property  string `json:"property"`
	Oracle    string `json:"oracle"`
	Signature string `json:"signature"`
	Message   string `json:"message"`
}

// Stats accumulates what actually happened (not what was configured).
type Stats struct {
	Faults     map[string]int64
	Probes     map[string]int64
	SimTimeNs  int64
	Events     uint64
	Calls      uint64 // guarded calls into pion/rtp
	Violations int64
}

// NewStats returns empty stats.
func NewStats() *Stats {
	return &Stats{Faults: map[string]int64{}, Probes: map[string]int64{}}
}

// Merge adds o into s.
func (s *Stats) Merge(o *Stats) {
	for k, v := range o.Faults {
		s.Faults[k] += v
	}
	for k, v := range o.Probes {
		s.Probes[k] += v
	}
	s.SimTimeNs += o.SimTimeNs
	s.Events += o.Events
	s.Calls += o.Calls
	s.Violations += o.Violations
}

// curAPI is read by the hang watchdog: id of the library call in progress (0 = none).
// API names are interned so that a guarded call costs one map lookup and one atomic store.
var (
	curAPI   atomic.Int32
	apiIDs   = map[string]int32{}
	apiNames = []string{""}
)

// CurrentAPIName returns the name of the library call in progress (watchdog only).
// It may race with interning by the run goroutine; it is called only when the run has
// made no progress for a long time.
func CurrentAPIName() string {
	id := int(curAPI.Load())
	if id > 0 && id < len(apiNames) {
		return apiNames[id]
	}
	return ""
}

// Progress is bumped on every guarded call and every run; read by the watchdog.
var Progress atomic.Uint64

// Ctx is everything one simulated run may touch.
type Ctx struct {
	Property string
	Config   string
	Tier     string
	T        *Tape
	Stats    *Stats
	Verbose  bool // render human-readable lines
	// Truncated: a discrete-event loop of this run hit its event budget with events still queued. Oracles that
	// run after the loop would mistake undelivered packets for losses; their violations are dropped.
	Truncated bool
	Lines    []string
	Viol     []Violation
	FPs      []uint64 // non-trivial state fingerprints reached in this run

	hash uint64
	Seq  uint64 // global event sequence number
	Now  int64  // simulated time, ns since the run's epoch (owned by the event loop)
}

// NewCtx builds a run context.
func NewCtx(property, config, tier string, t *Tape, st *Stats, verbose bool) *Ctx {
	return &Ctx{Property: property, Config: config, Tier: tier, T: t, Stats: st, Verbose: verbose,
		hash: 0x9E3779B97F4A7C15}
}

// Ev records one simulator event in the determinism fingerprint and bumps the global
// event sequence number. It never draws from the tape and never reads a real clock.
func (c *Ctx) Ev(kind string, vals ...uint64) uint64 {
	c.Seq++
	h := c.hash ^ FNV64(kind)
	h = Mix(h + c.Seq)
	for _, v := range vals {
		h = Mix(h ^ v)
	}
	c.hash = h
	return c.Seq
}

// TraceHash is the run's determinism fingerprint.
func (c *Ctx) TraceHash() uint64 { return Mix(c.hash ^ c.Seq) }

// Logf appends a rendered line when the run is verbose (replay, samples).
func (c *Ctx) Logf(format string, args ...interface{}) {
	if c.Verbose && len(c.Lines) < 400 {
		c.Lines = append(c.Lines, fmt.Sprintf("t=%dns #%d ", c.Now, c.Seq)+fmt.Sprintf(format, args...))
	}
}

// Violate records a violation (non-fatal).
func (c *Ctx) Violate(oracle, signature, format string, args ...interface{}) {
	if c.Truncated && oracle != "panic" {
		c.Probe("violation-dropped-after-truncated-run")
		return
	}
	msg := fmt.Sprintf(format, args...)
	if len(msg) > 600 {
		msg = msg[:600] + "…"
	}
	c.Ev("violation", FNV64(signature))
	c.Logf("VIOLATION %s: %s", signature, msg)
	for _, v := range c.Viol {
		if v.Signature == signature {
			return
		}
	}
	c.Viol = append(c.Viol, Violation{Property: c.Property, Oracle: oracle, Signature: signature, Message: msg})
}

// Fault counts an injected fault that actually fired.
func (c *Ctx) Fault(kind string) { c.Stats.Faults[kind]++ }

// Probe counts a rare condition that was actually reached.
func (c *Ctx) Probe(name string) { c.Stats.Probes[name]++ }

// Fingerprint adds a non-trivial state fingerprint reached by this run.
func (c *Ctx) Fingerprint(parts ...uint64) {
	h := uint64(0x243F6A8885A308D3)
	for _, p := range parts {
		h = Mix(h ^ p)
	}
	c.FPs = append(c.FPs, h)
}

// Guard runs fn, which calls into pion/rtp under the name api. A panic is turned into a
// violation whose signature carries the first pion/rtp frame and the panic class.
// It reports whether fn panicked.
func (c *Ctx) Guard(api string, fn func()) (panicked bool) {
	c.Stats.Calls++
	Progress.Add(1)
	id, ok := apiIDs[api]
	if !ok {
		id = int32(len(apiNames))
		apiNames = append(apiNames, api)
		apiIDs[api] = id
	}
	curAPI.Store(id)
	defer func() {
		curAPI.Store(0)
		if r := recover(); r != nil {
			panicked = true
			site := panicSite()
			class := panicClass(r)
			c.Violate("panic", fmt.Sprintf("%s/panic/%s/%s/%s", c.Property, api, site, class),
				"panic in %s at %s: %v", api, site, r)
		}
	}()
	fn()
	return false
}

func panicClass(r interface{}) string {
	s := fmt.Sprint(r)
	switch {
	case strings.Contains(s, "index out of range"):
		return "index-out-of-range"
	case strings.Contains(s, "slice bounds out of range"):
		return "slice-bounds"
	case strings.Contains(s, "nil pointer"):
		return "nil-deref"
	case strings.Contains(s, "makeslice"), strings.Contains(s, "len out of range"), strings.Contains(s, "cap out of range"):
		return "makeslice"
	case strings.Contains(s, "unlock of unlocked"):
		return "unlock-of-unlocked"
	case strings.Contains(s, "divide by zero"):
		return "divide-by-zero"
	}
	if len(s) > 40 {
		s = s[:40]
	}
	return strings.Map(func(r rune) rune {
		if r == ' ' || r == '/' {
			return '-'
		}
		return r
	}, s)
}

// panicSite returns the innermost pion/rtp function on the panicking stack.
func panicSite() string {
	pcs := make([]uintptr, 64)
	n := runtime.Callers(3, pcs)
	frames := runtime.CallersFrames(pcs[:n])
	for {
		f, more := frames.Next()
		if strings.Contains(f.Function, "github.com/pion/rtp") {
			fn := strings.TrimPrefix(f.Function, "github.com/pion/rtp")
			fn = strings.TrimPrefix(fn, "/")
			fn = strings.TrimPrefix(fn, ".")
			return fn
		}
		if !more {
			break
		}
	}
	return "unknown"
}
