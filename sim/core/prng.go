// Package core holds the simulator kernel: PRNG, choice tape, trace, run context,
// discrete-event loop, shrinker. Nothing here calls pion/rtp.
package core

// SplitMix64 advances *s and returns the next value of the splitmix64 sequence.
func SplitMix64(s *uint64) uint64 {
	*s += 0x9E3779B97F4A7C15
	z := *s
	z = (z ^ (z >> 30)) * 0xBF58476D1CE4E5B9
	z = (z ^ (z >> 27)) * 0x94D049BB133111EB
	return z ^ (z >> 31)
}

// Mix is a stateless 64-bit finaliser used for seed derivation and hashing.
func Mix(x uint64) uint64 {
	s := x
	return SplitMix64(&s)
}

// Xoshiro is xoshiro256**; written here (not math/rand) so that streams do not
// depend on the Go release.
type Xoshiro struct{ s [4]uint64 }

// NewXoshiro seeds the generator from one integer via splitmix64.
func NewXoshiro(seed uint64) Xoshiro {
	var x Xoshiro
	for i := range x.s {
		x.s[i] = SplitMix64(&seed)
	}
	return x
}

func rotl(x uint64, k uint) uint64 { return (x << k) | (x >> (64 - k)) }

// Next returns the next 64 random bits.
func (x *Xoshiro) Next() uint64 {
	r := rotl(x.s[1]*5, 7) * 9
	t := x.s[1] << 17
	x.s[2] ^= x.s[0]
	x.s[3] ^= x.s[1]
	x.s[1] ^= x.s[2]
	x.s[0] ^= x.s[3]
	x.s[2] ^= t
	x.s[3] = rotl(x.s[3], 45)
	return r
}

// FNV64 hashes a string (FNV-1a); used to derive per-property seeds.
func FNV64(s string) uint64 {
	h := uint64(0xcbf29ce484222325)
	for i := 0; i < len(s); i++ {
		h ^= uint64(s[i])
		h *= 0x100000001b3
	}
	return h
}

// HashBytes hashes a byte slice (FNV-1a then mixed).
func HashBytes(b []byte) uint64 {
	h := uint64(0xcbf29ce484222325)
	for _, c := range b {
		h ^= uint64(c)
		h *= 0x100000001b3
	}
	return Mix(h ^ uint64(len(b)))
}

// RunSeed derives the seed of run number idx of a property from VERIF_SEED.
func RunSeed(verifSeed uint64, property string, idx uint64) uint64 {
	return Mix(Mix(verifSeed^FNV64(property)) ^ Mix(idx+0x51ED270B))
}
