package core

import "time"

// Shrink minimises a tape by delta debugging: truncate, delete blocks, zero blocks,
// lower single values; a candidate is kept iff test(candidate) is true (the caller's
// test is "the rerun reports a violation with the same signature"). Because a zero draw
// is always the simplest choice this removes frames, packets, faults, threads and
// preemptions without per-check shrinking code.
func Shrink(vals []uint64, test func([]uint64) bool, maxTests int, maxWall time.Duration) ([]uint64, int) {
	cur := append([]uint64(nil), vals...)
	tests := 0
	deadline := time.Now().Add(maxWall) // wall clock is read only by the driver, never by a run
	try := func(c []uint64) bool {
		if tests >= maxTests || time.Now().After(deadline) {
			return false
		}
		tests++
		return test(c)
	}
	trim := func() {
		for len(cur) > 0 && cur[len(cur)-1] == 0 {
			cur = cur[:len(cur)-1]
		}
	}
	for round := 0; round < 8; round++ {
		before := len(cur)
		sumBefore := uint64(0)
		for _, v := range cur {
			sumBefore += v
		}
		// 1. truncate (binary search on the length)
		lo, hi := 0, len(cur)
		for lo < hi {
			mid := (lo + hi) / 2
			if try(cur[:mid]) {
				hi = mid
			} else {
				lo = mid + 1
			}
		}
		if hi < len(cur) && try(cur[:hi]) {
			cur = append([]uint64(nil), cur[:hi]...)
		}
		// 2. delete blocks
		for size := len(cur) / 2; size >= 1; size /= 2 {
			for i := 0; i+size <= len(cur); {
				cand := make([]uint64, 0, len(cur)-size)
				cand = append(cand, cur[:i]...)
				cand = append(cand, cur[i+size:]...)
				if try(cand) {
					cur = cand
				} else {
					i += size
				}
			}
			if tests >= maxTests {
				break
			}
		}
		// 3. zero blocks
		for size := len(cur) / 2; size >= 1; size /= 2 {
			for i := 0; i+size <= len(cur); i += size {
				allZero := true
				for _, v := range cur[i : i+size] {
					if v != 0 {
						allZero = false
						break
					}
				}
				if allZero {
					continue
				}
				cand := append([]uint64(nil), cur...)
				for j := i; j < i+size; j++ {
					cand[j] = 0
				}
				if try(cand) {
					cur = cand
				}
			}
			if tests >= maxTests {
				break
			}
		}
		// 4. lower single values
		for i := range cur {
			if cur[i] == 0 {
				continue
			}
			cand := append([]uint64(nil), cur...)
			cand[i] = 0
			if try(cand) {
				cur = cand
				continue
			}
			lo, hi := uint64(0), cur[i] // invariant: hi works, lo does not
			for hi-lo > 1 && tests < maxTests {
				mid := lo + (hi-lo)/2
				cand = append([]uint64(nil), cur...)
				cand[i] = mid
				if try(cand) {
					hi = mid
				} else {
					lo = mid
				}
				if hi > 1<<20 && hi-lo < hi/16 {
					break // large opaque values (content seeds): do not bisect to the bit
				}
			}
			cur[i] = hi
		}
		trim()
		sumAfter := uint64(0)
		for _, v := range cur {
			sumAfter += v
		}
		if (len(cur) == before && sumAfter == sumBefore) || tests >= maxTests || time.Now().After(deadline) {
			break
		}
	}
	return cur, tests
}
