package core

import "container/heap"

// event is one scheduled closure; the heap is ordered by (At, Seq): a total order.
type event struct {
	At  int64
	Seq uint64
	Run func()
}

type eventHeap []event

func (h eventHeap) Len() int { return len(h) }
func (h eventHeap) Less(i, j int) bool {
	if h[i].At != h[j].At {
		return h[i].At < h[j].At
	}
	return h[i].Seq < h[j].Seq
}
func (h eventHeap) Swap(i, j int)       { h[i], h[j] = h[j], h[i] }
func (h *eventHeap) Push(x interface{}) { *h = append(*h, x.(event)) }
func (h *eventHeap) Pop() interface{} {
	old := *h
	n := len(old)
	e := old[n-1]
	*h = old[:n-1]
	return e
}

// Loop is the discrete-event core. Simulated time (Ctx.Now) is the only clock any node
// reads; when nothing is runnable the clock jumps to the next event.
type Loop struct {
	C      *Ctx
	q      eventHeap
	seq    uint64
	MaxEvt int
	ran    int
}

// NewLoop returns a loop bound to ctx with a cap on executed events.
func NewLoop(c *Ctx, maxEvents int) *Loop { return &Loop{C: c, MaxEvt: maxEvents} }

// After schedules f at now+d (d in ns, >= 0).
func (l *Loop) After(d int64, f func()) {
	if d < 0 {
		d = 0
	}
	l.seq++
	heap.Push(&l.q, event{At: l.C.Now + d, Seq: l.seq, Run: f})
}

// Pending reports the number of queued events.
func (l *Loop) Pending() int { return len(l.q) }

// Run executes events in (time, seq) order until the queue is empty or the cap is hit.
func (l *Loop) Run() {
	start := l.C.Now
	for len(l.q) > 0 && l.ran < l.MaxEvt {
		ev := heap.Pop(&l.q).(event)
		l.C.Now = ev.At
		l.ran++
		ev.Run()
	}
	if len(l.q) > 0 {
		// the event budget ran out with work still queued: whatever an end-of-run oracle would conclude from
		// the missing deliveries is the harness's doing, not the library's (Ctx.Violate drops it)
		l.C.Truncated = true
		l.C.Probe("event-budget-exhausted")
	}
	l.C.Stats.SimTimeNs += l.C.Now - start
	l.C.Stats.Events += uint64(l.ran)
}
