package core

// Tape is the single source of every decision in a run. In generate mode it draws
// from the PRNG (optionally recording); in replay mode it returns recorded values
// (reduced modulo the requested range; 0 once the record is exhausted). Generators are
// written so that 0 is always the simplest choice, which makes every truncated or
// zeroed tape a valid, simpler run.
type Tape struct {
	rng    Xoshiro
	vals   []uint64
	pos    int
	replay bool
	record bool
	Draws  uint64
}

// NewGenTape returns a generating tape; when record is true every draw is kept.
func NewGenTape(seed uint64, record bool) *Tape {
	return &Tape{rng: NewXoshiro(seed), record: record}
}

// NewReplayTape returns a tape replaying vals.
func NewReplayTape(vals []uint64) *Tape { return &Tape{vals: vals, replay: true} }

// Recorded returns the recorded values (generate mode with record) or the consumed
// prefix (replay mode).
func (t *Tape) Recorded() []uint64 {
	if t.replay {
		if t.pos > len(t.vals) {
			return t.vals
		}
		return t.vals[:t.pos]
	}
	return t.vals
}

// Draw returns a value in [0,n); n == 0 means the full 64-bit range.
func (t *Tape) Draw(n uint64) uint64 {
	t.Draws++
	if n == 1 {
		// still consumes a slot so that tapes stay aligned when ranges change
		if t.replay {
			t.pos++
		} else if t.record {
			t.vals = append(t.vals, 0)
		}
		return 0
	}
	var v uint64
	if t.replay {
		if t.pos < len(t.vals) {
			v = t.vals[t.pos]
		}
		t.pos++
		if n != 0 {
			v %= n
		}
		return v
	}
	v = t.rng.Next()
	if n != 0 {
		// multiply-shift is fine here: bias is < 2^-32 for the ranges used
		if n <= 1<<32 {
			v = ((v >> 32) * n) >> 32
		} else {
			v %= n
		}
	}
	if t.record {
		t.vals = append(t.vals, v)
	}
	return v
}

// Intn returns an int in [0,n); n <= 0 yields 0.
func (t *Tape) Intn(n int) int {
	if n <= 0 {
		return 0
	}
	return int(t.Draw(uint64(n)))
}

// Range returns an int in [lo,hi] (inclusive); lo is the simplest value.
func (t *Tape) Range(lo, hi int) int {
	if hi <= lo {
		return lo
	}
	return lo + t.Intn(hi-lo+1)
}

// Chance is true with probability num/den; a zero draw is false (the simple case).
func (t *Tape) Chance(num, den uint64) bool {
	if num == 0 {
		t.Draw(1)
		return false
	}
	return t.Draw(den) >= den-num
}

// Bool is Chance(1,2).
func (t *Tape) Bool() bool { return t.Draw(2) == 1 }

// Pick returns one of the ints; the first is the simplest.
func (t *Tape) Pick(vals ...int) int { return vals[t.Intn(len(vals))] }

// Weighted returns an index with the given relative weights; index 0 is the simplest.
func (t *Tape) Weighted(w ...int) int {
	sum := 0
	for _, x := range w {
		sum += x
	}
	d := t.Intn(sum)
	for i, x := range w {
		if d < x {
			return i
		}
		d -= x
	}
	return 0
}

// Bytes returns n pseudo-random bytes expanded from ONE draw, so that media contents
// cost one tape slot and sizes (drawn separately) shrink independently. A zero draw
// gives a fixed ramp pattern.
func (t *Tape) Bytes(n int) []byte {
	seed := t.Draw(0)
	b := make([]byte, n)
	FillBytes(b, seed)
	return b
}

// FillBytes fills b deterministically from seed (seed 0: a ramp 1,2,3,…).
func FillBytes(b []byte, seed uint64) {
	if seed == 0 {
		for i := range b {
			b[i] = byte(i + 1)
		}
		return
	}
	x := NewXoshiro(seed)
	i := 0
	for i+8 <= len(b) {
		v := x.Next()
		b[i], b[i+1], b[i+2], b[i+3] = byte(v), byte(v>>8), byte(v>>16), byte(v>>24)
		b[i+4], b[i+5], b[i+6], b[i+7] = byte(v>>32), byte(v>>40), byte(v>>48), byte(v>>56)
		i += 8
	}
	if i < len(b) {
		v := x.Next()
		for ; i < len(b); i++ {
			b[i] = byte(v)
			v >>= 8
		}
	}
}
