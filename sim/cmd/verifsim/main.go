// Command verifsim is the driver of the deterministic simulator: it forks worker
// processes, merges their results ordered by run index, shrinks and replays violations,
// applies the known-findings file and writes the evidence file.
//
//	verifsim check  -prop C04 -tier quick|thorough
//	verifsim replay <file>
//	verifsim selftest -prop C04 [-seeds 40]
//	verifsim worker …            (internal)
package main

import (
	"bufio"
	"encoding/binary"
	"encoding/json"
	"flag"
	"fmt"
	"os"
	"os/exec"
	"path/filepath"
	"runtime"
	"runtime/pprof"
	"sort"
	"strconv"
	"strings"
	"time"

	"verifsim/checks"
	"verifsim/core"
)

func root() string {
	if r := os.Getenv("VERIF_ROOT"); r != "" {
		return r
	}
	return "/verif"
}

func verifSeed() uint64 {
	if s := os.Getenv("VERIF_SEED"); s != "" {
		if v, err := strconv.ParseInt(s, 10, 64); err == nil {
			return uint64(v)
		}
		if v, err := strconv.ParseUint(s, 10, 64); err == nil {
			return v
		}
	}
	return 1
}

func main() {
	if len(os.Args) < 2 {
		fmt.Fprintln(os.Stderr, "usage: verifsim check|replay|selftest|worker|list …")
		os.Exit(2)
	}
	switch os.Args[1] {
	case "worker":
		workerMain(os.Args[2:])
	case "check":
		os.Exit(checkMain(os.Args[2:]))
	case "replay":
		os.Exit(replayMain(os.Args[2:]))
	case "selftest":
		os.Exit(selftestMain(os.Args[2:]))
	case "list":
		for _, id := range checks.IDs() {
			fmt.Println(id)
		}
	default:
		fmt.Fprintln(os.Stderr, "unknown subcommand", os.Args[1])
		os.Exit(2)
	}
}

// ---------------------------------------------------------------- worker

// Found is the first occurrence (lowest run index in this worker) of a signature.
type Found struct {
	Run       int64          `json:"run"`
	RunSeed   uint64         `json:"run_seed"`
	Config    string         `json:"config"`
	PrePass   bool           `json:"prepass,omitempty"`
	Violation core.Violation `json:"violation"`
	Count     int64          `json:"count"`
}

// HashRec is (run index, trace hash, violation signatures) for determinism comparison.
type HashRec struct {
	Run  int64  `json:"run"`
	Hash uint64 `json:"hash"`
	Sigs string `json:"sigs"`
}

// WorkerOut is what one worker process reports.
type WorkerOut struct {
	Runs       int64            `json:"runs"`
	Nontrivial int64            `json:"nontrivial_runs"`
	PerConfig  map[string]int64 `json:"per_config"`
	Stats      *core.Stats      `json:"stats"`
	Found      []Found          `json:"found"`
	Hashes     []HashRec        `json:"hashes,omitempty"`
	HarnessErr string           `json:"harness_err,omitempty"`
	PrePass    int              `json:"prepass_cases"`
	Draws      uint64           `json:"draws"`
}

type hangRec struct {
	Run     int64  `json:"run"`
	RunSeed uint64 `json:"run_seed"`
	Config  string `json:"config"`
	API     string `json:"api"`
}

func workerMain(args []string) {
	fs := flag.NewFlagSet("worker", flag.ExitOnError)
	prop := fs.String("prop", "", "")
	tier := fs.String("tier", "quick", "")
	seed := fs.Uint64("seed", 1, "")
	n := fs.Int64("n", 0, "total runs over all workers")
	stride := fs.Int64("stride", 1, "")
	offset := fs.Int64("offset", 0, "")
	deadlineMs := fs.Int64("deadline", 0, "unix ms after which no new run is started")
	out := fs.String("out", "", "")
	hashUpTo := fs.Int64("hashes", 0, "record trace hashes of runs with index < this")
	prepass := fs.Bool("prepass", false, "")
	hangSec := fs.Int("hang", 60, "")
	forceCfg := fs.String("force-config", "", "every run uses this configuration")
	_ = fs.Parse(args)
	chk := checks.Registry[*prop]
	if chk == nil {
		fmt.Fprintln(os.Stderr, "unknown property", *prop)
		os.Exit(2)
	}
	if pf := os.Getenv("VERIF_CPUPROFILE"); pf != "" {
		if f, err := os.Create(pf); err == nil {
			_ = pprof.StartCPUProfile(f)
			defer pprof.StopCPUProfile()
		}
	}
	res := &WorkerOut{Stats: core.NewStats(), PerConfig: map[string]int64{}}
	fps := map[uint64]struct{}{}
	firstBySig := map[string]int{}
	var curRun int64
	var curSeed uint64
	var curCfg string
	// hang watchdog: wall clock is read here only, never inside a run
	go func() {
		last := core.Progress.Load()
		still := 0
		for {
			time.Sleep(time.Second)
			p := core.Progress.Load()
			if p != last {
				last, still = p, 0
				continue
			}
			still++
			if still >= *hangSec {
				api := core.CurrentAPIName()
				b, _ := json.Marshal(hangRec{Run: curRun, RunSeed: curSeed, Config: curCfg, API: api})
				_ = os.WriteFile(*out+".hang", b, 0o644)
				// the run goroutine is stuck inside the library and no longer touches res:
				// keep what this worker had completed so far
				if pb, err := json.Marshal(res); err == nil {
					_ = os.WriteFile(*out, pb, 0o644)
				}
				os.Exit(3)
			}
		}
	}()
	record := func(run int64, rs uint64, cfg string, pre bool, c *core.Ctx) {
		for _, v := range c.Viol {
			if i, ok := firstBySig[v.Signature]; ok {
				res.Found[i].Count++
				continue
			}
			firstBySig[v.Signature] = len(res.Found)
			res.Found = append(res.Found, Found{Run: run, RunSeed: rs, Config: cfg, PrePass: pre, Violation: v, Count: 1})
		}
	}
	if *prepass && chk.PrePass != nil {
		st := core.NewStats()
		c := core.NewCtx(chk.ID, "prepass", *tier, core.NewGenTape(core.RunSeed(*seed, chk.ID+"/prepass", 0), false), st, false)
		func() {
			defer func() {
				if r := recover(); r != nil {
					res.HarnessErr = fmt.Sprintf("prepass harness panic: %v", r)
				}
			}()
			res.PrePass = chk.PrePass(c)
		}()
		res.Stats.Merge(st)
		record(-1, 0, "prepass", true, c)
	}
	for idx := *offset; idx < *n; idx += *stride {
		if *deadlineMs > 0 && time.Now().UnixMilli() > *deadlineMs {
			break
		}
		cfg := chk.ConfigOf(idx)
		if *forceCfg != "" {
			cfg = *forceCfg
		}
		rs := core.RunSeed(*seed, chk.ID, uint64(idx))
		curRun, curSeed, curCfg = idx, rs, cfg
		tape := core.NewGenTape(rs, false)
		c, herr := checks.Execute(chk, cfg, *tier, tape, res.Stats, false)
		if herr != "" {
			res.HarnessErr = fmt.Sprintf("run %d seed %d config %s: %s", idx, rs, cfg, herr)
			break
		}
		res.Runs++
		res.Draws += tape.Draws
		res.PerConfig[cfg]++
		if len(c.FPs) > 0 {
			res.Nontrivial++
			if len(fps) < 6_000_000 {
				for _, f := range c.FPs {
					fps[f] = struct{}{}
				}
			}
		}
		if idx < *hashUpTo {
			var sigs []string
			for _, v := range c.Viol {
				sigs = append(sigs, v.Signature)
			}
			res.Hashes = append(res.Hashes, HashRec{Run: idx, Hash: c.TraceHash(), Sigs: strings.Join(sigs, ",")})
		}
		if len(c.Viol) > 0 {
			record(idx, rs, cfg, false, c)
		}
	}
	// fingerprints as a binary file (sorted, so the bytes are deterministic)
	keys := make([]uint64, 0, len(fps))
	for k := range fps {
		keys = append(keys, k)
	}
	sort.Slice(keys, func(i, j int) bool { return keys[i] < keys[j] })
	f, err := os.Create(*out + ".fp")
	if err == nil {
		w := bufio.NewWriter(f)
		var b [8]byte
		for _, k := range keys {
			binary.LittleEndian.PutUint64(b[:], k)
			_, _ = w.Write(b[:])
		}
		_ = w.Flush()
		_ = f.Close()
	}
	b, _ := json.Marshal(res)
	if err := os.WriteFile(*out, b, 0o644); err != nil {
		fmt.Fprintln(os.Stderr, "worker: cannot write", *out, err)
		os.Exit(2)
	}
}

// ---------------------------------------------------------------- known findings

// Known is one line of /verif/known_findings.jsonl (committed; never written at run time).
type Known struct {
	Property  string `json:"property"`
	Signature string `json:"signature"`
	Status    string `json:"status"` // open | fixed
	Commit    string `json:"commit,omitempty"`
	What      string `json:"what"`
	Witness   string `json:"witness,omitempty"`
}

func loadKnown() ([]Known, error) {
	f, err := os.Open(filepath.Join(root(), "known_findings.jsonl"))
	if err != nil {
		if os.IsNotExist(err) {
			return nil, nil
		}
		return nil, err
	}
	defer f.Close()
	var ks []Known
	sc := bufio.NewScanner(f)
	sc.Buffer(make([]byte, 1<<20), 1<<20)
	for sc.Scan() {
		line := strings.TrimSpace(sc.Text())
		if line == "" || strings.HasPrefix(line, "#") {
			continue
		}
		var k Known
		if err := json.Unmarshal([]byte(line), &k); err != nil {
			return nil, fmt.Errorf("known_findings.jsonl: %v", err)
		}
		ks = append(ks, k)
	}
	return ks, sc.Err()
}

// ---------------------------------------------------------------- replay files

// Replay is the replay file: seed + minimised tape + expected signature and trace hash.
type Replay struct {
	Property     string   `json:"property"`
	Config       string   `json:"config"`
	Tier         string   `json:"tier"`
	VerifSeed    uint64   `json:"verif_seed"`
	RunIndex     int64    `json:"run_index"`
	RunSeed      uint64   `json:"run_seed"`
	PrePass      bool     `json:"prepass,omitempty"`
	Tape         []uint64 `json:"tape"` // nil: regenerate from run_seed
	OrigTapeLen  int      `json:"original_tape_len"`
	ShrinkTests  int      `json:"shrink_tests"`
	Oracle       string   `json:"oracle"`
	Signature    string   `json:"signature"`
	Message      string   `json:"message"`
	TraceHash    uint64   `json:"trace_hash"`
	Rendering    []string `json:"rendering"`
	HangAPI      string   `json:"hang_api,omitempty"`
	RepoRevision string   `json:"repo_revision,omitempty"`
	// Prelude: run indices (same property, tier and VERIF_SEED) executed in this process before the
	// failing run. Non-empty only when the violation depends on state of pion/rtp that outlives a run
	// (package-level state): the replay is then the minimised process history, not one run alone.
	// Instrumented: the replay needs the instrumented build (bin/check replay picks it).
	Instrumented   bool    `json:"instrumented_build,omitempty"`
	Prelude        []int64 `json:"prelude_runs,omitempty"`
	PreludePrePass bool    `json:"prelude_prepass,omitempty"`
	PreludeConfig  string  `json:"prelude_config,omitempty"` // set when the pass forced one configuration on every run
}

func runReplay(r *Replay, verbose bool) (c *core.Ctx, herr string) {
	chk := checks.Registry[r.Property]
	if chk == nil {
		return nil, "unknown property " + r.Property
	}
	st := core.NewStats()
	if r.PreludePrePass && chk.PrePass != nil {
		pc := core.NewCtx(chk.ID, "prepass", r.Tier, core.NewGenTape(core.RunSeed(r.VerifSeed, chk.ID+"/prepass", 0), false), core.NewStats(), false)
		func() {
			defer func() { _ = recover() }()
			chk.PrePass(pc)
		}()
	}
	for _, idx := range r.Prelude {
		pcfg := chk.ConfigOf(idx)
		if r.PreludeConfig != "" {
			pcfg = r.PreludeConfig
		}
		if _, h := checks.Execute(chk, pcfg, r.Tier, core.NewGenTape(core.RunSeed(r.VerifSeed, chk.ID, uint64(idx)), false), core.NewStats(), false); h != "" {
			return nil, "prelude run " + strconv.FormatInt(idx, 10) + ": " + h
		}
	}
	if r.PrePass {
		c = core.NewCtx(chk.ID, "prepass", r.Tier, core.NewGenTape(core.RunSeed(r.VerifSeed, chk.ID+"/prepass", 0), false), st, verbose)
		func() {
			defer func() {
				if rr := recover(); rr != nil {
					herr = fmt.Sprint("prepass harness panic: ", rr)
				}
			}()
			chk.PrePass(c)
		}()
		return c, herr
	}
	var tape *core.Tape
	if r.Tape != nil {
		tape = core.NewReplayTape(r.Tape)
	} else {
		tape = core.NewGenTape(r.RunSeed, false)
	}
	return checks.Execute(chk, r.Config, r.Tier, tape, st, verbose)
}

func hasSig(c *core.Ctx, sig string) *core.Violation {
	if c == nil {
		return nil
	}
	for i := range c.Viol {
		if c.Viol[i].Signature == sig {
			return &c.Viol[i]
		}
	}
	return nil
}

func replayMain(args []string) int {
	if len(args) < 1 {
		fmt.Fprintln(os.Stderr, "usage: verifsim replay <file>")
		return 2
	}
	b, err := os.ReadFile(args[0])
	if err != nil {
		fmt.Fprintln(os.Stderr, err)
		return 2
	}
	var r Replay
	if err := json.Unmarshal(b, &r); err != nil {
		fmt.Fprintln(os.Stderr, err)
		return 2
	}
	quiet := len(args) > 1 && args[1] == "-q"
	if r.Instrumented && !checks.SchedBuild {
		fmt.Fprintln(os.Stderr, "this replay needs the instrumented build: use bin/check replay <file>")
		return 2
	}
	c, herr := runReplay(&r, true)
	if herr != "" {
		fmt.Fprintln(os.Stderr, herr)
		return 2
	}
	if !quiet {
		for _, l := range c.Lines {
			fmt.Println(l)
		}
	}
	if v := hasSig(c, r.Signature); v != nil {
		if r.TraceHash != 0 && c.TraceHash() != r.TraceHash {
			fmt.Printf("REPRODUCED-WITH-DIFFERENT-TRACE signature=%s trace=%d expected=%d\n", r.Signature, c.TraceHash(), r.TraceHash)
			return 1
		}
		fmt.Printf("REPRODUCED property=%s signature=%s trace=%d\n  %s\n", r.Property, r.Signature, c.TraceHash(), v.Message)
		return 1
	}
	fmt.Printf("NOT-REPRODUCED property=%s signature=%s (found %d other violation(s))\n", r.Property, r.Signature, len(c.Viol))
	for _, v := range c.Viol {
		fmt.Printf("  other: %s\n", v.Signature)
	}
	return 0
}

// ---------------------------------------------------------------- check

// forcedConfig is set by `check -only-config`: the second pass of bin/check (instrumented build).
var forcedConfig string

func spawnWorkers(self, prop, tier string, seed uint64, n int64, w int, deadline time.Time, hashes int64, prepass bool, dir string, gomaxprocs int, hangSec int) ([]*WorkerOut, map[uint64]struct{}, *hangRec, error) {
	type proc struct {
		cmd *exec.Cmd
		out string
	}
	var procs []proc
	for k := 0; k < w; k++ {
		out := filepath.Join(dir, fmt.Sprintf("w%d-%d.json", k, time.Now().UnixNano()))
		a := []string{"worker", "-prop", prop, "-tier", tier, "-seed", strconv.FormatUint(seed, 10),
			"-n", strconv.FormatInt(n, 10), "-stride", strconv.Itoa(w), "-offset", strconv.Itoa(k),
			"-deadline", strconv.FormatInt(deadline.UnixMilli(), 10), "-out", out,
			"-hashes", strconv.FormatInt(hashes, 10), "-hang", strconv.Itoa(hangSec)}
		if prepass && k == 0 {
			a = append(a, "-prepass")
		}
		if forcedConfig != "" {
			a = append(a, "-force-config", forcedConfig)
		}
		cmd := exec.Command(self, a...)
		cmd.Stderr = os.Stderr
		cmd.Env = os.Environ()
		if gomaxprocs > 0 {
			cmd.Env = append(cmd.Env, "GOMAXPROCS="+strconv.Itoa(gomaxprocs))
		}
		if err := cmd.Start(); err != nil {
			return nil, nil, nil, err
		}
		procs = append(procs, proc{cmd, out})
	}
	var outs []*WorkerOut
	fps := map[uint64]struct{}{}
	var hang *hangRec
	var firstErr error
	for _, p := range procs {
		err := p.cmd.Wait()
		if err != nil {
			if ee, ok := err.(*exec.ExitError); ok && ee.ExitCode() == 3 {
				if b, e2 := os.ReadFile(p.out + ".hang"); e2 == nil {
					var h hangRec
					if json.Unmarshal(b, &h) == nil && (hang == nil || h.Run < hang.Run) {
						hang = &h
					}
				}
				if pb, e3 := os.ReadFile(p.out); e3 == nil {
					var o WorkerOut
					if json.Unmarshal(pb, &o) == nil {
						outs = append(outs, &o)
					}
				}
				_ = os.Remove(p.out)
				_ = os.Remove(p.out + ".hang")
				continue
			}
			if firstErr == nil {
				firstErr = fmt.Errorf("worker failed: %v", err)
			}
			continue
		}
		b, err := os.ReadFile(p.out)
		if err != nil {
			if firstErr == nil {
				firstErr = err
			}
			continue
		}
		var o WorkerOut
		if err := json.Unmarshal(b, &o); err != nil {
			if firstErr == nil {
				firstErr = err
			}
			continue
		}
		outs = append(outs, &o)
		if fb, err := os.ReadFile(p.out + ".fp"); err == nil {
			for i := 0; i+8 <= len(fb); i += 8 {
				fps[binary.LittleEndian.Uint64(fb[i:])] = struct{}{}
			}
		}
		_ = os.Remove(p.out)
		_ = os.Remove(p.out + ".fp")
	}
	return outs, fps, hang, firstErr
}

func checkMain(args []string) int {
	fs := flag.NewFlagSet("check", flag.ExitOnError)
	prop := fs.String("prop", "", "")
	tier := fs.String("tier", "quick", "")
	workers := fs.Int("workers", runtime.NumCPU(), "")
	runsOverride := fs.Int64("runs", 0, "override the number of runs")
	secOverride := fs.Int("seconds", 0, "override the wall budget")
	noEvidence := fs.Bool("no-evidence", false, "")
	onlyCfg := fs.String("only-config", "", "run every run in this configuration (second pass of bin/check)")
	appendEv := fs.Bool("append-evidence", false, "add this pass to the evidence file the first pass wrote")
	_ = fs.Parse(args)
	forcedConfig = *onlyCfg
	if t := os.Getenv("VERIF_TIER"); t != "" && *tier == "" {
		*tier = t
	}
	chk := checks.Registry[*prop]
	if chk == nil {
		fmt.Fprintln(os.Stderr, "unknown property", *prop, "registered:", checks.IDs())
		return 2
	}
	known, err := loadKnown()
	if err != nil {
		fmt.Fprintln(os.Stderr, err)
		return 2
	}
	self, err := os.Executable()
	if err != nil {
		fmt.Fprintln(os.Stderr, err)
		return 2
	}
	dir, err := os.MkdirTemp("", "verifsim-")
	if err != nil {
		fmt.Fprintln(os.Stderr, err)
		return 2
	}
	defer os.RemoveAll(dir)
	seed := verifSeed()
	t0 := time.Now()
	n := int64(chk.QuickRuns)
	budget := 150 * time.Second
	hang := 60
	if *tier == "thorough" {
		n = 1 << 40
		budget = time.Duration(chk.ThoroughSec) * time.Second
		hang = 120
	}
	if *onlyCfg != "" {
		// the interleaved pass: a twelfth of the quick runs, a sixth of the thorough budget
		n = int64(chk.QuickRuns)/12 + 1000
		if *tier == "thorough" {
			n = 1 << 40
			budget = time.Duration(chk.ThoroughSec/6+20) * time.Second
		}
	}
	if *runsOverride > 0 {
		n = *runsOverride
	}
	if *secOverride > 0 {
		budget = time.Duration(*secOverride) * time.Second
	}
	const detRuns = 48
	fmt.Printf("verifsim: property=%s tier=%s VERIF_SEED=%d workers=%d\n", chk.ID, *tier, seed, *workers)
	outs, fps, hangRecord, err := spawnWorkers(self, chk.ID, *tier, seed, n, *workers, t0.Add(budget), detRuns, *tier == "thorough" && *onlyCfg == "", dir, 0, hang)
	if err != nil {
		fmt.Fprintln(os.Stderr, "verifsim:", err)
		return 2
	}
	total := &WorkerOut{Stats: core.NewStats(), PerConfig: map[string]int64{}}
	bySig := map[string]*Found{}
	mainHashes := map[int64]HashRec{}
	for _, o := range outs {
		if o.HarnessErr != "" {
			fmt.Fprintln(os.Stderr, "verifsim: harness error:", o.HarnessErr)
			return 2
		}
		total.Runs += o.Runs
		total.Nontrivial += o.Nontrivial
		total.PrePass += o.PrePass
		total.Draws += o.Draws
		total.Stats.Merge(o.Stats)
		for k, v := range o.PerConfig {
			total.PerConfig[k] += v
		}
		for _, h := range o.Hashes {
			mainHashes[h.Run] = h
		}
		for i := range o.Found {
			f := o.Found[i]
			if e, ok := bySig[f.Violation.Signature]; ok {
				cnt := e.Count + f.Count
				if f.Run < e.Run {
					ff := f
					bySig[f.Violation.Signature] = &ff
					e = &ff
				}
				bySig[f.Violation.Signature].Count = cnt
			} else {
				ff := f
				bySig[f.Violation.Signature] = &ff
			}
		}
	}
	exit := 0
	// hang: re-execute once; a second stall in the same library call is non-termination
	if hangRecord != nil {
		rp := &Replay{Property: chk.ID, Config: hangRecord.Config, Tier: *tier, VerifSeed: seed, RunIndex: hangRecord.Run,
			RunSeed: hangRecord.RunSeed, Oracle: "non-termination", HangAPI: hangRecord.API,
			Signature: fmt.Sprintf("%s/non-termination/%s", chk.ID, hangRecord.API), Message: "run stalled inside " + hangRecord.API}
		path := writeReplay(rp)
		ctxCmd := exec.Command(self, "replay", path, "-q")
		done := make(chan error, 1)
		_ = ctxCmd.Start()
		go func() { done <- ctxCmd.Wait() }()
		select {
		case <-done:
			fmt.Fprintf(os.Stderr, "verifsim: a worker stalled (run %d, api %q) but the stall did not reproduce: harness trouble\n", hangRecord.Run, hangRecord.API)
			return 2
		case <-time.After(time.Duration(hang) * time.Second):
			_ = ctxCmd.Process.Kill()
			if hangRecord.API == "" {
				fmt.Fprintln(os.Stderr, "verifsim: reproducible stall outside any library call: harness trouble")
				return 2
			}
			fmt.Printf("VIOLATION property=%s replay=%s\n", chk.ID, path)
			exit = 1
		}
	}
	sigs := make([]string, 0, len(bySig))
	for s := range bySig {
		sigs = append(sigs, s)
	}
	sort.Slice(sigs, func(i, j int) bool {
		a, b := bySig[sigs[i]], bySig[sigs[j]]
		if a.Run != b.Run {
			return a.Run < b.Run
		}
		return sigs[i] < sigs[j]
	})
	knownHit := map[string]int64{}
	newViolations := 0
	for _, s := range sigs {
		f := bySig[s]
		var k *Known
		for i := range known {
			if known[i].Property == chk.ID && known[i].Signature == s && known[i].Status == "open" {
				k = &known[i]
			}
		}
		if k != nil {
			fmt.Printf("KNOWN-FINDING: property=%s %s [signature=%s, hit in %d run(s)]\n", chk.ID, k.What, s, f.Count)
			knownHit[s] = f.Count
			continue
		}
		newViolations++
		if newViolations > 12 {
			fmt.Printf("verifsim: further violation signature not minimised: %s (run %d)\n", s, f.Run)
			continue
		}
		path, ok := minimiseAndWrite(self, chk, f, *tier, seed)
		if !ok {
			// the run alone does not fail: does the worker's process history reproduce it?
			path, ok = minimiseWithHistory(self, chk, f, *tier, seed, int64(*workers), *tier == "thorough" && *onlyCfg == "")
		}
		if !ok {
			fmt.Fprintf(os.Stderr, "verifsim: violation %s (run %d) did not reproduce in a fresh process: harness trouble\n", s, f.Run)
			return 2
		}
		fmt.Printf("VIOLATION property=%s replay=%s\n", chk.ID, path)
		fmt.Printf("  signature: %s\n  message: %s\n  first at run %d (config %s), hit in %d run(s)\n", s, f.Violation.Message, f.Run, f.Config, f.Count)
		exit = 1
	}
	// determinism sample (thorough): the first detRuns runs again in fresh processes at GOMAXPROCS 1 and 4
	detPairs, detMismatch := 0, 0
	if *tier == "thorough" && exit == 0 {
		for _, gmp := range []int{1, 4} {
			o2, _, _, err := spawnWorkers(self, chk.ID, *tier, seed, detRuns, 3, time.Now().Add(10*time.Minute), detRuns, false, dir, gmp, hang)
			if err != nil {
				fmt.Fprintln(os.Stderr, "verifsim: determinism pass:", err)
				return 2
			}
			for _, o := range o2 {
				for _, h := range o.Hashes {
					if m, ok := mainHashes[h.Run]; ok {
						detPairs++
						if m.Hash != h.Hash || m.Sigs != h.Sigs {
							detMismatch++
							fmt.Fprintf(os.Stderr, "verifsim: DETERMINISM MISMATCH run %d: %d/%q vs %d/%q\n", h.Run, m.Hash, m.Sigs, h.Hash, h.Sigs)
						}
					}
				}
			}
		}
		if detMismatch > 0 {
			return 2
		}
	}
	wall := time.Since(t0).Seconds()
	if !*noEvidence && *appendEv {
		if err := appendEvidence(chk, *tier, total, len(fps), newViolations, wall, *onlyCfg); err != nil {
			fmt.Fprintln(os.Stderr, "verifsim: evidence:", err)
			return 2
		}
	} else if !*noEvidence {
		if err := writeEvidence(chk, *tier, seed, total, len(fps), knownHit, newViolations, wall, detPairs, detMismatch, *workers); err != nil {
			fmt.Fprintln(os.Stderr, "verifsim: evidence:", err)
			return 2
		}
	}
	fmt.Printf("verifsim: %s %s: %d runs (%d non-trivial, %d distinct fingerprints), %d prepass cases, %.1fs, %d known finding(s), %d new violation(s)\n",
		chk.ID, *tier, total.Runs, total.Nontrivial, len(fps), total.PrePass, wall, len(knownHit), newViolations)
	if *tier == "thorough" && *onlyCfg == "" { // the probes belong to the first pass's worlds
		for _, p := range chk.ProbeNames {
			if total.Stats.Probes[p] == 0 {
				fmt.Printf("verifsim: WARNING probe %q was never hit\n", p)
			}
		}
	}
	if total.Runs == 0 && exit == 0 {
		fmt.Fprintln(os.Stderr, "verifsim: no run was executed")
		return 2
	}
	return exit
}

func writeReplay(r *Replay) string {
	r.Instrumented = checks.SchedBuild && (r.Property == "C07" || r.Config == checks.InterleavedConfig)
	dir := filepath.Join(root(), "replays")
	if d := os.Getenv("VERIF_REPLAYS"); d != "" {
		dir = d // mutant / seeded-change runs keep their replay files out of /verif/replays
	}
	_ = os.MkdirAll(dir, 0o755)
	name := fmt.Sprintf("%s-%08x-%d.json", r.Property, uint32(core.FNV64(r.Signature)), r.RunSeed)
	path := filepath.Join(dir, name)
	b, _ := json.MarshalIndent(r, "", " ")
	_ = os.WriteFile(path, b, 0o644)
	return path
}

// minimiseAndWrite records the tape of the failing run, shrinks it while the same
// signature persists, writes the replay file and replays it in a fresh process.
func minimiseAndWrite(self string, chk *checks.Check, f *Found, tier string, seed uint64) (string, bool) {
	sig := f.Violation.Signature
	rp := &Replay{Property: chk.ID, Config: f.Config, Tier: tier, VerifSeed: seed, RunIndex: f.Run, RunSeed: f.RunSeed,
		PrePass: f.PrePass, Oracle: f.Violation.Oracle, Signature: sig, Message: f.Violation.Message}
	if !f.PrePass {
		tape := core.NewGenTape(f.RunSeed, true)
		c, herr := checks.Execute(chk, f.Config, tier, tape, core.NewStats(), false)
		if herr != "" || hasSig(c, sig) == nil {
			return "", false
		}
		orig := tape.Recorded()
		rp.OrigTapeLen = len(orig)
		test := func(vals []uint64) bool {
			c2, h2 := checks.Execute(chk, f.Config, tier, core.NewReplayTape(vals), core.NewStats(), false)
			return h2 == "" && hasSig(c2, sig) != nil
		}
		min, tests := core.Shrink(orig, test, 4000, 40*time.Second)
		rp.ShrinkTests = tests
		if min == nil {
			min = []uint64{}
		}
		rp.Tape = min
	}
	c, herr := runReplay(rp, true)
	if herr != "" {
		return "", false
	}
	v := hasSig(c, sig)
	if v == nil {
		return "", false
	}
	rp.Message = v.Message
	rp.TraceHash = c.TraceHash()
	rp.Rendering = c.Lines
	path := writeReplay(rp)
	cmd := exec.Command(self, "replay", path, "-q")
	out, err := cmd.CombinedOutput()
	if ee, ok := err.(*exec.ExitError); !ok || ee.ExitCode() != 1 || !strings.Contains(string(out), "REPRODUCED property=") {
		fmt.Fprintf(os.Stderr, "replay check failed: %v\n%s\n", err, out)
		return path, false
	}
	return path, true
}

// replaysInFreshProcess writes rp and reports whether a fresh process reproduces its signature.
func replaysInFreshProcess(self string, rp *Replay) (string, bool) {
	path := writeReplay(rp)
	out, err := exec.Command(self, "replay", path, "-q").CombinedOutput()
	ee, isExit := err.(*exec.ExitError)
	return path, isExit && ee.ExitCode() == 1 && strings.Contains(string(out), "REPRODUCED property=")
}

// minimiseWithHistory handles a violation that a fresh process does not reproduce from the failing
// run alone: the worker that found it had executed other runs before, and pion/rtp may keep state
// between them (package-level variables). The replay is then the failing run preceded by the
// worker's earlier runs, minimised (shortest reproducing suffix, then single deletions) with one
// fresh process per test, because in-process shrinking would itself change that state.
func minimiseWithHistory(self string, chk *checks.Check, f *Found, tier string, seed uint64, stride int64, prepassRan bool) (string, bool) {
	if f.PrePass || stride <= 0 {
		return "", false
	}
	sig := f.Violation.Signature
	var all []int64
	for i := f.Run % stride; i < f.Run; i += stride {
		all = append(all, i)
	}
	rp := &Replay{Property: chk.ID, Config: f.Config, Tier: tier, VerifSeed: seed, RunIndex: f.Run, RunSeed: f.RunSeed,
		Oracle: f.Violation.Oracle, Signature: sig, Message: f.Violation.Message,
		Prelude: all, PreludePrePass: prepassRan && f.Run%stride == 0 && chk.PrePass != nil, PreludeConfig: forcedConfig}
	tests := 0
	try := func(pre []int64, pp bool) bool {
		tests++
		rp.Prelude, rp.PreludePrePass = pre, pp
		_, ok := replaysInFreshProcess(self, rp)
		return ok
	}
	fullPP := rp.PreludePrePass
	if !try(all, fullPP) {
		return "", false
	}
	best, bestPP := all, fullPP
	if fullPP && try(all, false) {
		bestPP = false
	}
	for k := 1; k < len(all); k *= 2 { // shortest reproducing suffix among 1, 2, 4, …
		if try(all[len(all)-k:], bestPP) {
			best = all[len(all)-k:]
			break
		}
	}
	for i := 0; i < len(best) && tests < 80; { // single deletions
		cand := append(append([]int64{}, best[:i]...), best[i+1:]...)
		if try(cand, bestPP) {
			best = cand
		} else {
			i++
		}
	}
	rp.Prelude, rp.PreludePrePass, rp.ShrinkTests = best, bestPP, tests
	// rendering and trace hash come from a fresh process too (this one has executed shrink tests)
	path := writeReplay(rp)
	out, _ := exec.Command(self, "replay", path).CombinedOutput()
	lines := strings.Split(strings.TrimRight(string(out), "\n"), "\n")
	for _, l := range lines {
		if i := strings.Index(l, " trace="); i >= 0 && strings.HasPrefix(l, "REPRODUCED property=") {
			rp.TraceHash, _ = strconv.ParseUint(strings.TrimSpace(l[i+7:]), 10, 64)
		}
	}
	if len(lines) > 600 {
		lines = lines[len(lines)-600:]
	}
	rp.Rendering = lines
	rp.Message = f.Violation.Message + " [depends on state that outlives a run: reproduced only after the listed prelude runs in the same process]"
	return replaysInFreshProcess(self, rp)
}

// ---------------------------------------------------------------- evidence

func writeEvidence(chk *checks.Check, tier string, seed uint64, tot *WorkerOut, distinct int, knownHit map[string]int64, newViol int, wall float64, detPairs, detMismatch, workers int) error {
	// samples: re-execute verbosely (throw-away stats) the first run of each configuration, at least 3 runs
	var samples []interface{}
	seen := map[string]bool{}
	for idx := int64(0); idx < 4096 && (len(samples) < 3 || len(seen) < len(chk.AllConfigs())) && len(samples) < 6; idx++ {
		cfg := chk.ConfigOf(idx)
		if seen[cfg] && len(seen) < len(chk.AllConfigs()) {
			continue
		}
		seen[cfg] = true
		rs := core.RunSeed(seed, chk.ID, uint64(idx))
		c, _ := checks.Execute(chk, cfg, tier, core.NewGenTape(rs, false), core.NewStats(), true)
		lines := c.Lines
		if len(lines) > 30 {
			lines = append(lines[:30:30], fmt.Sprintf("… %d more lines", len(c.Lines)-30))
		}
		samples = append(samples, map[string]interface{}{"run_index": idx, "run_seed": rs, "config": cfg,
			"events": c.Seq, "trace_hash": strconv.FormatUint(c.TraceHash(), 16), "rendering": lines})
	}
	cov := map[string]interface{}{
		"evaluations":               tot.Runs + int64(tot.PrePass),
		"distinct_nontrivial":       distinct,
		"rule":                      chk.Rule,
		"samples":                   samples,
		"simulated_runs":            tot.Runs,
		"nontrivial_runs":           tot.Nontrivial,
		"runs_per_config":           tot.PerConfig,
		"prepass_cases":             tot.PrePass,
		"runs_per_hour":             int64(float64(tot.Runs) / wall * 3600),
		"simulated_time_s":          float64(tot.Stats.SimTimeNs) / 1e9,
		"simulator_events":          tot.Stats.Events,
		"library_calls":             tot.Stats.Calls,
		"tape_draws":                tot.Draws,
		"faults_fired":              tot.Stats.Faults,
		"probes":                    tot.Stats.Probes,
		"components":                map[string]interface{}{"real": chk.Real, "stub": chk.Stub},
		"known_findings_hit":        knownHit,
		"determinism_pairs_checked": detPairs,
		"determinism_mismatches":    detMismatch,
		"workers":                   workers,
		"seeds":                     fmt.Sprintf("VERIF_SEED=%d; run i uses seed mix(VERIF_SEED, property, i), i in [0,%d)", seed, tot.Runs),
		"exhaustive":                false,
	}
	ev := map[string]interface{}{
		"property_id": chk.ID,
		"tier":        tier,
		"seed":        int64(seed),
		"level":       chk.Level,
		"coverage":    cov,
		"assumptions": chk.Assumptions,
		"wall_s":      wall,
		"violations":  newViol,
	}
	b, err := json.MarshalIndent(ev, "", " ")
	if err != nil {
		return err
	}
	dir := filepath.Join(root(), "evidence")
	_ = os.MkdirAll(dir, 0o755)
	return os.WriteFile(filepath.Join(dir, chk.ID+".json"), b, 0o644)
}

// appendEvidence adds the interleaved pass (instrumented build) to the evidence file that the
// first pass of the same bin/check invocation has just written.
func appendEvidence(chk *checks.Check, tier string, tot *WorkerOut, distinct, newViol int, wall float64, cfg string) error {
	path := filepath.Join(root(), "evidence", chk.ID+".json")
	b, err := os.ReadFile(path)
	if err != nil {
		return err
	}
	var ev map[string]interface{}
	if err := json.Unmarshal(b, &ev); err != nil {
		return err
	}
	if ev["tier"] != tier {
		return fmt.Errorf("evidence file is of tier %v, this pass is %s", ev["tier"], tier)
	}
	cov, _ := ev["coverage"].(map[string]interface{})
	if cov == nil {
		return fmt.Errorf("evidence file has no coverage object")
	}
	num := func(m map[string]interface{}, k string) float64 {
		switch v := m[k].(type) {
		case float64:
			return v
		case int64:
			return float64(v)
		case int:
			return float64(v)
		}
		return 0
	}
	addInt := func(m map[string]interface{}, k string, v int64) { m[k] = int64(num(m, k)) + v }
	addInt(cov, "evaluations", tot.Runs)
	addInt(cov, "simulated_runs", tot.Runs)
	addInt(cov, "nontrivial_runs", tot.Nontrivial)
	addInt(cov, "distinct_nontrivial", int64(distinct))
	addInt(cov, "simulator_events", int64(tot.Stats.Events))
	addInt(cov, "library_calls", int64(tot.Stats.Calls))
	addInt(cov, "tape_draws", int64(tot.Draws))
	cov["simulated_time_s"] = num(cov, "simulated_time_s") + float64(tot.Stats.SimTimeNs)/1e9
	mergeCounts := func(key string, add map[string]int64, prefix string) {
		m, _ := cov[key].(map[string]interface{})
		if m == nil {
			m = map[string]interface{}{}
		}
		for k, v := range add {
			addInt(m, prefix+k, v)
		}
		cov[key] = m
	}
	mergeCounts("faults_fired", tot.Stats.Faults, "")
	mergeCounts("probes", tot.Stats.Probes, "")
	rpc := map[string]int64{}
	for k, v := range tot.PerConfig {
		rpc[k+" (statement-level, instrumented build)"] = v
	}
	mergeCounts("runs_per_config", rpc, "")
	var sample []string
	if tot.Runs > 0 {
		rs := core.RunSeed(uint64(num(ev, "seed")), chk.ID, 0)
		c, _ := checks.Execute(chk, cfg, tier, core.NewGenTape(rs, false), core.NewStats(), true)
		sample = c.Lines
		if len(sample) > 30 {
			sample = sample[:30]
		}
	}
	cov["interleaved_pass"] = map[string]interface{}{
		"what": "second pass of bin/check: independent instances on simulated threads, preemption possible before every statement of pion/rtp, codecs, codecs/vp9, codecs/av1/obu, codecs/av1/frame (instrumented copies of the working tree); oracle: every instance's results equal the results of the same calls executed alone",
		"runs": tot.Runs, "runs_with_preemption_inside_a_call": tot.Nontrivial, "distinct_schedules": distinct,
		"preemptions": tot.Stats.Faults["preempt"], "wall_s": wall, "new_violations": newViol, "sample_run_0": sample,
	}
	ev["wall_s"] = num(ev, "wall_s") + wall
	ev["violations"] = int64(num(ev, "violations")) + int64(newViol)
	if w := num(ev, "wall_s"); w > 0 {
		cov["runs_per_hour"] = int64(num(cov, "simulated_runs") / w * 3600)
	}
	out, err := json.MarshalIndent(ev, "", " ")
	if err != nil {
		return err
	}
	return os.WriteFile(path, out, 0o644)
}

// ---------------------------------------------------------------- selftest

// selftestMain proves determinism on a sample: the same seeds in fresh processes under
// GOMAXPROCS 1/4/16 and worker counts 1/4/16 must give identical trace hashes.
func selftestMain(args []string) int {
	fs := flag.NewFlagSet("selftest", flag.ExitOnError)
	prop := fs.String("prop", "", "property id, or empty for all")
	seeds := fs.Int64("seeds", 40, "run indexes per configuration")
	onlyCfg := fs.String("only-config", "", "every run in this configuration (e.g. interleaved)")
	_ = fs.Parse(args)
	forcedConfig = *onlyCfg
	self, _ := os.Executable()
	dir, err := os.MkdirTemp("", "verifsim-self-")
	if err != nil {
		return 2
	}
	defer os.RemoveAll(dir)
	ids := checks.IDs()
	if *prop != "" {
		ids = []string{*prop}
	}
	bad := 0
	for _, id := range ids {
		chk := checks.Registry[id]
		if chk == nil {
			fmt.Fprintln(os.Stderr, "unknown", id)
			return 2
		}
		n := *seeds * int64(len(chk.AllConfigs()))
		if *onlyCfg != "" {
			if chk.Tenants == nil {
				continue
			}
			n = *seeds
		}
		var ref map[int64]HashRec
		pairs := 0
		for _, cfg := range [][2]int{{1, 1}, {4, 4}, {16, 16}, {16, 1}, {3, 4}} {
			outs, _, _, err := spawnWorkers(self, id, "quick", verifSeed(), n, cfg[0], time.Now().Add(20*time.Minute), n, false, dir, cfg[1], 120)
			if err != nil {
				fmt.Fprintln(os.Stderr, "selftest:", err)
				return 2
			}
			got := map[int64]HashRec{}
			for _, o := range outs {
				if o.HarnessErr != "" {
					fmt.Fprintln(os.Stderr, "selftest: harness error:", o.HarnessErr)
					return 2
				}
				for _, h := range o.Hashes {
					got[h.Run] = h
				}
			}
			if int64(len(got)) != n {
				fmt.Fprintf(os.Stderr, "selftest %s: expected %d hashes, got %d\n", id, n, len(got))
				return 2
			}
			if ref == nil {
				ref = got
				continue
			}
			for k, v := range got {
				pairs++
				if ref[k] != v {
					bad++
					fmt.Printf("selftest %s: MISMATCH run %d workers=%d GOMAXPROCS=%d: %v vs %v\n", id, k, cfg[0], cfg[1], ref[k], v)
				}
			}
		}
		fmt.Printf("selftest %s: %d runs x 5 process configurations, %d pairs compared, %d mismatches so far\n", id, n, pairs, bad)
	}
	if bad > 0 {
		return 2
	}
	return 0
}
