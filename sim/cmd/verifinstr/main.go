// Command verifinstr instruments package rtp (the non-test files in the root of -repo)
// for the simulated thread scheduler of C07 and writes a `go build -overlay` file.
// /repo is never written. What is inserted:
//
//  1. verifrt.Yield(site) before every statement of every function body / func literal;
//  2. the import "sync" is redirected to the overlay-added package
//     github.com/pion/rtp/verifrt, whose Mutex / RWMutex are scheduled by the simulator
//     (every other sync name is an alias of the real one);
//  3. before every statement of a pointer-receiver method, verifrt.Access(recv, field, w)
//     for each plain selector recv.f in the statement's own expressions, and
//     verifrt.Sync(recv, field) when recv.f is the operand of a sync/atomic function or
//     the receiver of an atomic-typed method (Load/Store/Add/Swap/CompareAndSwap/And/Or).
//
// A site table (site id -> file:line function) is written next to the overlay.
package main

import (
	"bytes"
	"encoding/json"
	"flag"
	"fmt"
	"go/ast"
	"go/parser"
	"go/printer"
	"go/token"
	"os"
	"path/filepath"
	"sort"
	"strconv"
	"strings"
)

const rtPath = "github.com/pion/rtp/verifrt"

type site struct {
	File string `json:"file"`
	Line int    `json:"line"`
	Func string `json:"func"`
}

type instr struct {
	fset      *token.FileSet
	sites     []site
	fields    []string
	fidx      map[string]int
	file      string
	yieldOnly bool // sub-packages: preemption points and the sync redirect, no access tracking
}

func (in *instr) fieldID(name string) int {
	if i, ok := in.fidx[name]; ok {
		return i
	}
	in.fidx[name] = len(in.fields)
	in.fields = append(in.fields, name)
	return len(in.fields) - 1
}

func (in *instr) newSite(pos token.Pos, fn string) int {
	p := in.fset.Position(pos)
	in.sites = append(in.sites, site{File: in.file, Line: p.Line, Func: fn})
	return len(in.sites) - 1
}

func call(fn string, args ...ast.Expr) ast.Stmt {
	return &ast.ExprStmt{X: &ast.CallExpr{
		Fun:  &ast.SelectorExpr{X: ast.NewIdent("verifrt"), Sel: ast.NewIdent(fn)},
		Args: args,
	}}
}

func intLit(i int) ast.Expr { return &ast.BasicLit{Kind: token.INT, Value: strconv.Itoa(i)} }

type fnCtx struct {
	name string
	recv string // name of a pointer receiver, or ""
}

var atomicMethods = map[string]bool{"Load": true, "Store": true, "Add": true, "Swap": true, "CompareAndSwap": true, "And": true, "Or": true}

type access struct {
	field string
	kind  int // 0 read, 1 write, 2 sync
}

// collect walks e (not descending into func literals) and gathers recv.f accesses.
func (in *instr) collect(ctx fnCtx, n ast.Node, write bool, out *[]access) {
	if n == nil || ctx.recv == "" {
		return
	}
	isRecvSel := func(e ast.Expr) (string, bool) {
		se, ok := e.(*ast.SelectorExpr)
		if !ok {
			return "", false
		}
		id, ok := se.X.(*ast.Ident)
		if !ok || id.Name != ctx.recv {
			return "", false
		}
		return se.Sel.Name, true
	}
	var walk func(n ast.Node, write bool)
	walk = func(n ast.Node, write bool) {
		switch x := n.(type) {
		case nil:
			return
		case *ast.FuncLit:
			return
		case *ast.SelectorExpr:
			if f, ok := isRecvSel(x); ok {
				k := 0
				if write {
					k = 1
				}
				*out = append(*out, access{f, k})
				return
			}
			walk(x.X, write) // recv.f.g = v : a write through f
			return
		case *ast.IndexExpr:
			walk(x.X, write)
			walk(x.Index, false)
			return
		case *ast.StarExpr:
			walk(x.X, write)
			return
		case *ast.ParenExpr:
			walk(x.X, write)
			return
		case *ast.UnaryExpr:
			if x.Op == token.AND {
				// address taken: the callee performs the access, not this statement
				if _, ok := isRecvSel(x.X); ok {
					return
				}
			}
			walk(x.X, false)
			return
		case *ast.CallExpr:
			// atomic.F(&recv.f, …)
			if se, ok := x.Fun.(*ast.SelectorExpr); ok {
				if id, ok := se.X.(*ast.Ident); ok && id.Name == "atomic" {
					for i, a := range x.Args {
						if i == 0 {
							if u, ok := a.(*ast.UnaryExpr); ok && u.Op == token.AND {
								if f, ok := isRecvSel(u.X); ok {
									*out = append(*out, access{f, 2})
									continue
								}
							}
						}
						walk(a, false)
					}
					return
				}
				// recv.f.Load() etc.: atomic-typed field
				if f, ok := isRecvSel(se.X); ok {
					if atomicMethods[se.Sel.Name] {
						*out = append(*out, access{f, 2})
					} else {
						*out = append(*out, access{f, 0})
					}
					for _, a := range x.Args {
						walk(a, false)
					}
					return
				}
				// recv.method(…): a method call on the receiver itself is not a field access
				if id, ok := se.X.(*ast.Ident); ok && id.Name == ctx.recv {
					for _, a := range x.Args {
						walk(a, false)
					}
					return
				}
			}
			walk(x.Fun, false)
			for _, a := range x.Args {
				walk(a, false)
			}
			return
		case *ast.AssignStmt:
			for _, l := range x.Lhs {
				walk(l, true)
				if x.Tok != token.ASSIGN && x.Tok != token.DEFINE {
					walk(l, false) // op-assign also reads
				}
			}
			for _, r := range x.Rhs {
				walk(r, false)
			}
			return
		case *ast.IncDecStmt:
			walk(x.X, true)
			walk(x.X, false)
			return
		case *ast.KeyValueExpr:
			walk(x.Value, false)
			return
		}
		// generic descent over expression children
		ast.Inspect(n, func(c ast.Node) bool {
			if c == n {
				return true
			}
			if c == nil {
				return false
			}
			if _, isStmt := c.(ast.Stmt); isStmt {
				if _, isBlock := c.(*ast.BlockStmt); isBlock {
					return false
				}
			}
			walk(c, false)
			return false
		})
	}
	walk(n, write)
}

// headerParts returns the parts of a statement that execute as part of the statement
// itself (not its nested blocks).
func headerParts(s ast.Stmt) []ast.Node {
	switch x := s.(type) {
	case *ast.IfStmt:
		return []ast.Node{x.Init, x.Cond}
	case *ast.ForStmt:
		return []ast.Node{x.Init, x.Cond, x.Post}
	case *ast.RangeStmt:
		return []ast.Node{x.X}
	case *ast.SwitchStmt:
		return []ast.Node{x.Init, x.Tag}
	case *ast.TypeSwitchStmt:
		return []ast.Node{x.Init, x.Assign}
	case *ast.SelectStmt, *ast.BlockStmt, *ast.LabeledStmt:
		return nil
	case *ast.CaseClause, *ast.CommClause:
		return nil
	}
	return []ast.Node{s}
}

func (in *instr) instrumentList(ctx fnCtx, list []ast.Stmt) []ast.Stmt {
	out := make([]ast.Stmt, 0, 2*len(list))
	for _, s := range list {
		in.instrumentStmt(ctx, s)
		if _, ok := s.(*ast.LabeledStmt); !ok {
			out = append(out, call("Yield", intLit(in.newSite(s.Pos(), ctx.name))))
			if ctx.recv != "" && !in.yieldOnly {
				var acc []access
				for _, part := range headerParts(s) {
					if part == nil || isNilNode(part) {
						continue
					}
					in.collect(ctx, part, false, &acc)
				}
				seen := map[access]bool{}
				for _, a := range acc {
					if seen[a] {
						continue
					}
					seen[a] = true
					siteID := intLit(len(in.sites) - 1)
					switch a.kind {
					case 2:
						out = append(out, call("Sync", ast.NewIdent(ctx.recv), intLit(in.fieldID(a.field)), siteID))
					default:
						w := "false"
						if a.kind == 1 {
							w = "true"
						}
						out = append(out, call("Access", ast.NewIdent(ctx.recv), intLit(in.fieldID(a.field)), ast.NewIdent(w), siteID))
					}
				}
			}
		}
		out = append(out, s)
	}
	return out
}

func isNilNode(n ast.Node) bool {
	switch x := n.(type) {
	case ast.Stmt:
		return x == nil
	case ast.Expr:
		return x == nil
	}
	return n == nil
}

// instrumentStmt recurses into nested blocks and function literals of s.
func (in *instr) instrumentStmt(ctx fnCtx, s ast.Stmt) {
	switch x := s.(type) {
	case *ast.BlockStmt:
		x.List = in.instrumentList(ctx, x.List)
	case *ast.IfStmt:
		in.funcLits(ctx, x.Init)
		in.funcLits(ctx, x.Cond)
		in.instrumentStmt(ctx, x.Body)
		if x.Else != nil {
			in.instrumentStmt(ctx, x.Else)
		}
	case *ast.ForStmt:
		in.funcLits(ctx, x.Init)
		in.funcLits(ctx, x.Cond)
		in.funcLits(ctx, x.Post)
		in.instrumentStmt(ctx, x.Body)
	case *ast.RangeStmt:
		in.funcLits(ctx, x.X)
		in.instrumentStmt(ctx, x.Body)
	case *ast.SwitchStmt:
		in.funcLits(ctx, x.Init)
		in.funcLits(ctx, x.Tag)
		for _, cc := range x.Body.List {
			c := cc.(*ast.CaseClause)
			c.Body = in.instrumentList(ctx, c.Body)
		}
	case *ast.TypeSwitchStmt:
		for _, cc := range x.Body.List {
			c := cc.(*ast.CaseClause)
			c.Body = in.instrumentList(ctx, c.Body)
		}
	case *ast.SelectStmt:
		for _, cc := range x.Body.List {
			c := cc.(*ast.CommClause)
			c.Body = in.instrumentList(ctx, c.Body)
		}
	case *ast.LabeledStmt:
		in.instrumentStmt(ctx, x.Stmt)
	default:
		in.funcLits(ctx, s)
	}
}

// funcLits instruments the bodies of function literals found in n.
func (in *instr) funcLits(ctx fnCtx, n ast.Node) {
	if n == nil || isNilNode(n) {
		return
	}
	ast.Inspect(n, func(c ast.Node) bool {
		if fl, ok := c.(*ast.FuncLit); ok {
			sub := ctx
			sub.name = ctx.name + ".func"
			fl.Body.List = in.instrumentList(sub, fl.Body.List)
			return false
		}
		return true
	})
}

func (in *instr) file2(path string) ([]byte, error) {
	src, err := os.ReadFile(path)
	if err != nil {
		return nil, err
	}
	// carry the leading //go:build line over by hand (comments are not parsed)
	var buildLine string
	for _, l := range strings.Split(string(src), "\n") {
		t := strings.TrimSpace(l)
		if strings.HasPrefix(t, "//go:build") {
			buildLine = t
			break
		}
		if strings.HasPrefix(t, "package ") {
			break
		}
	}
	f, err := parser.ParseFile(in.fset, path, src, 0)
	if err != nil {
		return nil, err
	}
	in.file = filepath.Base(path)
	if in.yieldOnly {
		in.file = filepath.Base(filepath.Dir(path)) + "/" + filepath.Base(path)
	}
	// redirect import "sync"; add the verifrt import
	for _, imp := range f.Imports {
		if imp.Path.Value == `"sync"` {
			imp.Path.Value = strconv.Quote(rtPath)
			if imp.Name == nil {
				imp.Name = ast.NewIdent("sync")
			}
		}
	}
	newImp := &ast.ImportSpec{Name: ast.NewIdent("verifrt"), Path: &ast.BasicLit{Kind: token.STRING, Value: strconv.Quote(rtPath)}}
	decl := &ast.GenDecl{Tok: token.IMPORT, Specs: []ast.Spec{newImp}}
	f.Decls = append([]ast.Decl{decl}, f.Decls...)
	for _, d := range f.Decls {
		switch fd := d.(type) {
		case *ast.FuncDecl:
			if fd.Body == nil {
				continue
			}
			ctx := fnCtx{name: fd.Name.Name}
			if fd.Recv != nil && len(fd.Recv.List) == 1 {
				r := fd.Recv.List[0]
				tn := ""
				ptr := false
				switch t := r.Type.(type) {
				case *ast.StarExpr:
					ptr = true
					if id, ok := t.X.(*ast.Ident); ok {
						tn = id.Name
					}
				case *ast.Ident:
					tn = t.Name
				}
				ctx.name = tn + "." + fd.Name.Name
				if ptr && len(r.Names) == 1 && r.Names[0].Name != "_" {
					ctx.recv = r.Names[0].Name
				}
			}
			fd.Body.List = in.instrumentList(ctx, fd.Body.List)
		case *ast.GenDecl:
			// package-level var initialisers may hold func literals
			if fd.Tok == token.VAR {
				in.funcLits(fnCtx{name: "init"}, fd)
			}
		}
	}
	var buf bytes.Buffer
	if buildLine != "" {
		buf.WriteString(buildLine + "\n\n")
	}
	buf.WriteString("// Code generated by verifinstr from " + path + "; DO NOT EDIT.\n\n")
	// positions are stale after insertion; print without them
	cfg := printer.Config{Mode: printer.UseSpaces | printer.TabIndent, Tabwidth: 8}
	if err := cfg.Fprint(&buf, token.NewFileSet(), f); err != nil {
		return nil, err
	}
	buf.WriteString("\nvar _ = verifrt.Yield\n")
	return buf.Bytes(), nil
}

func main() {
	repo := flag.String("repo", "/repo", "")
	out := flag.String("out", "", "scratch directory for the instrumented copies")
	flag.Parse()
	if *out == "" {
		fmt.Fprintln(os.Stderr, "verifinstr: -out required")
		os.Exit(2)
	}
	in := &instr{fset: token.NewFileSet(), fidx: map[string]int{}}
	replace := map[string]string{}
	nfiles := 0
	// the root package gets access tracking (C07's happens-before check); the codec packages get
	// preemption points only (the interleaved-instances worlds compare results, not accesses)
	for _, sub := range []string{"", "codecs", "codecs/vp9", "codecs/av1/obu", "codecs/av1/frame", "pkg/obu", "pkg/frame"} {
		dir := filepath.Join(*repo, sub)
		ents, err := os.ReadDir(dir)
		if err != nil {
			if sub == "" {
				fmt.Fprintln(os.Stderr, err)
				os.Exit(2)
			}
			continue
		}
		in.yieldOnly = sub != ""
		var names []string
		for _, e := range ents {
			n := e.Name()
			if e.IsDir() || !strings.HasSuffix(n, ".go") || strings.HasSuffix(n, "_test.go") {
				continue
			}
			names = append(names, n)
		}
		sort.Strings(names)
		for _, n := range names {
			src := filepath.Join(dir, n)
			b, err := in.file2(src)
			if err != nil {
				fmt.Fprintln(os.Stderr, "verifinstr:", err)
				os.Exit(2)
			}
			dst := filepath.Join(*out, strings.ReplaceAll("root/"+sub, "/", "_")+"_"+n)
			if err := os.WriteFile(dst, b, 0o644); err != nil {
				fmt.Fprintln(os.Stderr, err)
				os.Exit(2)
			}
			replace[src] = dst
			nfiles++
		}
	}
	// the runtime package, added to the module through the overlay
	rt := filepath.Join(*out, "verifrt.go")
	if err := os.WriteFile(rt, []byte(runtimeSrc), 0o644); err != nil {
		fmt.Fprintln(os.Stderr, err)
		os.Exit(2)
	}
	replace[filepath.Join(*repo, "verifrt", "verifrt.go")] = rt
	// site and field tables, compiled into the runtime package
	var tb bytes.Buffer
	tb.WriteString("package verifrt\n\n// Code generated by verifinstr; DO NOT EDIT.\n\n")
	tb.WriteString("// Sites maps a site id to its origin in /repo.\nvar Sites = []Site{\n")
	for _, s := range in.sites {
		fmt.Fprintf(&tb, "\t{%q, %d, %q},\n", s.File, s.Line, s.Func)
	}
	tb.WriteString("}\n\n// Fields maps a field id to its name.\nvar Fields = []string{\n")
	for _, f := range in.fields {
		fmt.Fprintf(&tb, "\t%q,\n", f)
	}
	tb.WriteString("}\n")
	tbl := filepath.Join(*out, "verifrt_tables.go")
	if err := os.WriteFile(tbl, tb.Bytes(), 0o644); err != nil {
		fmt.Fprintln(os.Stderr, err)
		os.Exit(2)
	}
	replace[filepath.Join(*repo, "verifrt", "verifrt_tables.go")] = tbl
	ov, _ := json.MarshalIndent(map[string]interface{}{"Replace": replace}, "", " ")
	if err := os.WriteFile(filepath.Join(*out, "overlay.json"), ov, 0o644); err != nil {
		fmt.Fprintln(os.Stderr, err)
		os.Exit(2)
	}
	fmt.Printf("verifinstr: %d files, %d yield sites, %d receiver fields\n", nfiles, len(in.sites), len(in.fields))
}

const runtimeSrc = `// Package verifrt is added to github.com/pion/rtp through go build -overlay by the
// C07 check of /verif. It is the seam between instrumented package rtp and the
// simulated thread scheduler. Code generated by verifinstr; DO NOT EDIT.
package verifrt

import "sync"

// Site is the origin of an instrumentation site.
type Site struct {
	File string
	Line int
	Func string
}

// Hooks are set by the simulator; when nil the package behaves like "sync".
var (
	YieldHook   func(site int)
	AccessHook  func(obj interface{}, field int, write bool, site int)
	SyncHook    func(obj interface{}, field int, site int)
	LockHook    func(m *Mutex) bool
	UnlockHook  func(m *Mutex) bool
	TryLockHook func(m *Mutex) (handled, ok bool)
	RWHook      func(m *RWMutex, op int) (handled, ok bool) // 0 Lock 1 Unlock 2 RLock 3 RUnlock 4 TryLock 5 TryRLock
)

// Yield is a possible preemption point.
func Yield(site int) {
	if YieldHook != nil {
		YieldHook(site)
	}
}

// Access records a plain access to a receiver field.
func Access(obj interface{}, field int, write bool, site int) {
	if AccessHook != nil {
		AccessHook(obj, field, write, site)
	}
}

// Sync records an atomic (synchronising) access to a receiver field.
func Sync(obj interface{}, field int, site int) {
	if SyncHook != nil {
		SyncHook(obj, field, site)
	}
}

// Mutex replaces sync.Mutex in instrumented code.
type Mutex struct {
	real sync.Mutex
}

func (m *Mutex) Lock() {
	if LockHook != nil && LockHook(m) {
		return
	}
	m.real.Lock()
}

func (m *Mutex) Unlock() {
	if UnlockHook != nil && UnlockHook(m) {
		return
	}
	m.real.Unlock()
}

func (m *Mutex) TryLock() bool {
	if TryLockHook != nil {
		if h, ok := TryLockHook(m); h {
			return ok
		}
	}
	return m.real.TryLock()
}

// RWMutex replaces sync.RWMutex in instrumented code.
type RWMutex struct {
	real sync.RWMutex
}

func (m *RWMutex) op(op int) (bool, bool) {
	if RWHook != nil {
		return RWHook(m, op)
	}
	return false, false
}

func (m *RWMutex) Lock() {
	if h, _ := m.op(0); !h {
		m.real.Lock()
	}
}

func (m *RWMutex) Unlock() {
	if h, _ := m.op(1); !h {
		m.real.Unlock()
	}
}

func (m *RWMutex) RLock() {
	if h, _ := m.op(2); !h {
		m.real.RLock()
	}
}

func (m *RWMutex) RUnlock() {
	if h, _ := m.op(3); !h {
		m.real.RUnlock()
	}
}

func (m *RWMutex) TryLock() bool {
	if h, ok := m.op(4); h {
		return ok
	}
	return m.real.TryLock()
}

func (m *RWMutex) TryRLock() bool {
	if h, ok := m.op(5); h {
		return ok
	}
	return m.real.TryRLock()
}

func (m *RWMutex) RLocker() Locker { return rlocker{m} }

type rlocker struct{ m *RWMutex }

func (r rlocker) Lock()   { r.m.RLock() }
func (r rlocker) Unlock() { r.m.RUnlock() }

// Once replaces sync.Once: built on the scheduled Mutex, so that a simulated thread that is
// preempted inside f does not leave another one blocked on a real lock.
type Once struct {
	m    Mutex
	done bool
}

func (o *Once) Do(f func()) {
	o.m.Lock()
	defer o.m.Unlock()
	if !o.done {
		defer func() { o.done = true }()
		f()
	}
}

// Pool replaces sync.Pool by a deterministic LIFO free list (the real one hands out
// per-P caches, which would make a replay depend on the Go scheduler).
type Pool struct {
	New   func() any
	mu    sync.Mutex
	items []any
}

func (p *Pool) Get() any {
	p.mu.Lock()
	if n := len(p.items); n > 0 {
		x := p.items[n-1]
		p.items = p.items[:n-1]
		p.mu.Unlock()
		return x
	}
	p.mu.Unlock()
	if p.New != nil {
		return p.New()
	}
	return nil
}

func (p *Pool) Put(x any) {
	if x == nil {
		return
	}
	p.mu.Lock()
	p.items = append(p.items, x)
	p.mu.Unlock()
}

// Everything else of package sync is the real thing.
type (
	Locker    = sync.Locker
	WaitGroup = sync.WaitGroup
	Map       = sync.Map
	Cond      = sync.Cond
)

// NewCond is sync.NewCond.
func NewCond(l Locker) *Cond { return sync.NewCond(l) }

// OnceFunc mirrors sync.OnceFunc on the scheduled Once.
func OnceFunc(f func()) func() {
	var o Once
	return func() { o.Do(f) }
}

// OnceValue mirrors sync.OnceValue on the scheduled Once.
func OnceValue[T any](f func() T) func() T {
	var o Once
	var v T
	return func() T {
		o.Do(func() { v = f() })
		return v
	}
}
`
