package checks

import (
	"bytes"
	"fmt"

	"github.com/pion/rtp/codecs"

	"verifsim/core"
)

// C14 — H265 packetization is lossless, RFC 7798-shaped; the parser decodes every form.
//
// Fault-free configuration of the codec-level world. Sender state: the DONL counter
// carried across calls. Receiver: a long-lived H265Packet fed from recycled buffers and
// a reassembly stub written from RFC 7798 §4.4 over the Packet() accessors.

func init() {
	register(&Check{
		ID:      "C14",
		Tenants: func(c *core.Ctx, i int) tenant { return tenantCodec(c, kH265, kH265DONL) }, Level: "exploration", Configs: []string{"clean", "foreign"},
		Run:         runC14,
		QuickRuns:   1_000_000,
		ThoroughSec: 600,
		Rule: "config clean: a real H265Payloader (SkipAggregation, AddDONL drawn; receiver WithDONL to match) streams 1-10 calls of 1-6 NAL units (F=0, type 0-47, layer 0-63, TID 1-7, " +
			"sizes around mtu-3..mtu+2 and multiples) at an MTU >= 4 (>= 6 with DONL) biased small, reassembled per RFC 7798; config foreign: an independent writer of single / AP (2-5 units) / " +
			"FU / PACI (PHSsize 0-31, F0 with TSCI) payloads with and without DONL/DOND decoded by fresh receivers, plus truncations; fingerprint = hash(options, mtu class, per-unit " +
			"(type class, size relative to mtu) truncated to 12) resp. hash(form, donl, #units, PHSsize, F0); non-trivial = a unit was fragmented or aggregated; foreign: any form but a plain single NAL unit",
		Real: []string{"codecs.H265Payloader.Payload", "codecs.H265Packet.Unmarshal", "codecs.H265Packet.Packet and accessors", "codecs.H265Packet.IsPartitionHead", "codecs.H265PACIPacket.TSCI"},
		Stub: []string{"HEVC NAL unit source", "FIFO wire + receive buffer pool", "RFC 7798 reassembly over the accessors", "independent RFC 7798 writer (foreign peer)", "truncating link"},
		Assumptions: []string{
			"TID (nuh_temporal_id_plus1) is drawn in 1-7: 0 is forbidden by HEVC and makes the NAL header emulate a start code",
			"with AddDONL the MTU is >= 6: below that no fragment can carry a payload byte next to a 3-byte FU header and a 2-byte DONL",
			"DONL/DOND: placement only, values are not checked (as the statement says)",
		},
		ProbeNames: []string{"unit-eq-mtu-1", "fu-train", "aggregation-packet", "donl-fu", "foreign-paci-tsci", "foreign-ap-donl", "foreign-truncated-rejected"},
	})
}

func runC14(c *core.Ctx) {
	if c.Config == "foreign" {
		runC14Foreign(c)
		return
	}
	t := c.T
	donl := t.Chance(1, 3)
	skipAgg := t.Chance(1, 3)
	minMTU := 4
	if donl {
		minMTU = 6
	}
	mtu := minMTU + []int{8, 0, 1, 2, 4, 20, 40, 1194}[t.Intn(8)] + t.Intn(3)
	if t.Chance(1, 200) {
		mtu = []int{32770, 40000, 65535}[t.Intn(3)] // sizes at which 16-bit arithmetic on aggregation sizes would wrap
		c.Probe("jumbo-mtu")
	}
	hugeCount := t.Chance(1, 1500) // one unit that needs more than 65535 fragments (1 byte per FU at the smallest MTU)
	if hugeCount {
		mtu = minMTU
		c.Probe("unit-needing-more-than-65535-fragments")
	}
	burst := !hugeCount && t.Chance(1, 120) // hundreds of tiny units in one call (parameter sets, SEI, filler): counts beyond 8-bit fields
	if burst {
		mtu = 1600 + t.Intn(3000)
		skipAgg = false
		c.Probe("burst-of-tiny-units")
	}
	pay := &codecs.H265Payloader{AddDONL: donl, SkipAggregation: skipAgg}
	rx := &codecs.H265Packet{}
	rx.WithDONL(donl)
	ncalls := 1 + t.Intn(10)
	var expected [][]byte
	var got [][]byte
	var fu []byte
	inFU := false
	fuFrags := 0
	nontrivial := false
	var fp []uint64
	var fuParts [][]byte
	c.Logf("donl=%v skipAgg=%v mtu=%d calls=%d", donl, skipAgg, mtu, ncalls)
	// abandoned: an FU train was left open. One FU with S set and E never set is ONE root cause
	// whatever arrives next, so it gets one signature.
	abandoned := func(next string) {
		if fuFrags == 1 {
			c.Violate("shape", "C14/shape/fu-single-fragment", "a unit (mtu %d, donl=%v) was sent as ONE FU with S set and E never set (%s follows)", mtu, donl, next)
		} else {
			c.Violate("shape", "C14/shape/fu-train-interrupted", "%s arrives inside an FU train of %d fragments", next, fuFrags)
		}
	}
	// option fields are plain exported fields: an application may flip them on a live payloader
	toggling := mtu >= 6 && t.Chance(1, 4)
	varyMTU := mtu < 2000 && t.Chance(1, 6)
	sendDonl := donl
	donlOf := map[int]bool{} // call index -> AddDONL at that call (lookup only)
	streamWorld(c, ncalls, func(k int) [][]byte {
		if toggling && k > 0 {
			if t.Chance(1, 3) {
				sendDonl = !sendDonl
				pay.AddDONL = sendDonl
				c.Probe("adddonl-toggled-on-live-payloader")
			}
			if t.Chance(1, 5) {
				skipAgg = !skipAgg
				pay.SkipAggregation = skipAgg
			}
		}
		donlOf[k] = sendDonl
		if varyMTU && k > 0 {
			mtu = 6 + []int{8, 0, 1, 2, 4, 20, 40, 1194}[t.Intn(8)] + t.Intn(3) // the path MTU changed between calls
		}
		units := genH265Units(t, mtu)
		if hugeCount && k == 0 {
			per := mtu - 3
			if sendDonl {
				per -= 2
			}
			if per < 1 {
				per = 1
			}
			u := mkH265Hdr(19, 0, 1)
			units = [][]byte{append(u, nalBody(t, (65530+t.Intn(3000))*per)...)}
		}
		if burst && k == 0 {
			units = units[:0]
			for i, n := 0, 200+t.Intn(600); i < n; i++ {
				u := mkH265Hdr(byte([]int{39, 40, 32, 33, 34, 38}[t.Intn(6)]), 0, 1)
				units = append(units, append(u, nalBody(t, 1+t.Intn(3))...))
			}
		}
		for _, u := range units {
			if len(u) == mtu-1 {
				c.Probe("unit-eq-mtu-1")
			}
			if len(fp) < 12 {
				rel := uint64(3)
				switch {
				case len(u)+2 < mtu:
					rel = 0
				case len(u) <= mtu:
					rel = 1
				case len(u) <= mtu+2:
					rel = 2
				}
				fp = append(fp, uint64(u[0]>>1&0x3F)<<2|rel)
			}
		}
		expected = append(expected, units...)
		var ps [][]byte
		if c.Guard("codecs.H265Payloader.Payload", func() { ps = pay.Payload(uint16(mtu), spare(t, annexB(t, units))) }) {
			return nil
		}
		c.Logf("call %d: %d units %s -> %d payloads %s", k, len(units), heads(units), len(ps), heads(ps))
		for _, p := range ps {
			if len(p) > mtu {
				c.Violate("shape", "C14/shape/payload-exceeds-mtu", "payload of %d bytes at MTU %d (donl=%v)", len(p), mtu, donl)
			}
		}
		return ps
	}, func(d datagram, buf []byte) {
		if len(c.Viol) > 0 {
			return
		}
		var err error
		var head bool
		if dd := donlOf[d.frame]; dd != donl {
			donl = dd // the receiver follows the signalling: payloads of this call were built with this setting
			rx.WithDONL(dd)
		}
		if c.Guard("codecs.H265Packet.Unmarshal", func() { _, err = rx.Unmarshal(buf); head = rx.IsPartitionHead(buf) }) {
			return
		}
		if err != nil {
			c.Violate("decode", "C14/decode/error-on-genuine-payload", "H265Packet rejected a payload of the real payloader: %v (%.4x… %d bytes, mtu %d donl=%v)", err, d.b, len(d.b), mtu, donl)
			return
		}
		// RFC 7798 reassembly over the accessors (copies: the receive buffer is recycled)
		switch q := rx.Packet().(type) {
		case *codecs.H265SingleNALUnitPacket:
			if inFU {
				abandoned("a single NAL unit packet")
				return
			}
			h := q.PayloadHeader()
			u := append([]byte{byte(h >> 8), byte(h)}, q.Payload()...)
			got = append(got, u)
			if donl && q.DONL() == nil {
				c.Violate("donl", "C14/donl-placement/single-missing", "single NAL unit packet without DONL although DONL is enabled")
				return
			}
			if !head {
				c.Violate("shape", "C14/partition-head/single", "IsPartitionHead false on a single NAL unit packet")
			}
		case *codecs.H265AggregationPacket:
			if inFU {
				abandoned("an aggregation packet")
				return
			}
			nontrivial = true
			c.Probe("aggregation-packet")
			hdr := parseH265Hdr(d.b)
			units := [][]byte{append([]byte{}, q.FirstUnit().NalUnit()...)}
			for _, o := range q.OtherUnits() {
				units = append(units, append([]byte{}, o.NalUnit()...))
				if donl && o.DOND() == nil {
					c.Violate("donl", "C14/donl-placement/ap-dond-missing", "aggregation unit without DOND although DONL is enabled")
					return
				}
			}
			if donl && q.FirstUnit().DONL() == nil {
				c.Violate("donl", "C14/donl-placement/ap-donl-missing", "first aggregation unit without DONL although DONL is enabled")
				return
			}
			minL, minT := byte(63), byte(7)
			for _, u := range units {
				if len(u) < 2 {
					c.Violate("shape", "C14/shape/ap-unit-too-short", "aggregation unit of %d bytes", len(u))
					return
				}
				uh := parseH265Hdr(u)
				if uh.layer < minL {
					minL = uh.layer
				}
				if uh.tid < minT {
					minT = uh.tid
				}
			}
			if hdr.typ != 48 || hdr.layer != minL || hdr.tid != minT || hdr.f {
				c.Violate("shape", "C14/shape/ap-header", "aggregation packet header type=%d layer=%d tid=%d, units have minimum layer %d tid %d", hdr.typ, hdr.layer, hdr.tid, minL, minT)
				return
			}
			if len(units) < 2 {
				c.Violate("shape", "C14/shape/ap-single-unit", "aggregation packet with %d unit", len(units))
				return
			}
			got = append(got, units...)
		case *codecs.H265FragmentationUnitPacket:
			nontrivial = true
			c.Probe("fu-train")
			fh := q.FuHeader()
			if fh.S() {
				if inFU {
					abandoned("another S fragment")
					return
				}
				inFU, fu, fuFrags, fuParts = true, nil, 0, nil
				ph := q.PayloadHeader()
				fu = append(fu, byte(ph>>8)&0x81|fh.FuType()<<1, byte(ph))
				if donl {
					c.Probe("donl-fu")
					if q.DONL() == nil {
						c.Violate("donl", "C14/donl-placement/fu-first-missing", "first FU fragment without DONL although DONL is enabled")
						return
					}
				}
			} else if !inFU {
				c.Violate("shape", "C14/shape/fu-no-start", "FU fragment without a preceding S fragment")
				return
			}
			if head != fh.S() {
				c.Violate("shape", "C14/partition-head/fu", "IsPartitionHead=%v on an FU with S=%v", head, fh.S())
				return
			}
			if fh.S() && fh.E() {
				c.Violate("shape", "C14/shape/fu-single-fragment", "an FU with both S and E")
				return
			}
			fu = append(fu, q.Payload()...)
			fuParts = append(fuParts, append([]byte{}, q.Payload()...))
			fuFrags++
			if fh.E() {
				inFU = false
				if fuFrags < 2 {
					c.Violate("shape", "C14/shape/fu-single-fragment", "unit sent as %d FU", fuFrags)
					return
				}
				if donl && len(got) < len(expected) && !bytes.Equal(fu, expected[len(got)]) {
					// RFC 7798: DONL only in the S=1 fragment. If every later fragment carries two extra
					// leading bytes and the unit is right without them, that is the placement defect and
					// nothing else; the unit is then taken as reassembled without them.
					alt := append([]byte{}, fu[:2]...)
					okAlt := true
					for i, part := range fuParts {
						if i > 0 {
							if len(part) < 2 {
								okAlt = false
								break
							}
							part = part[2:]
						}
						alt = append(alt, part...)
					}
					if okAlt && bytes.Equal(alt, expected[len(got)]) {
						c.Violate("donl", "C14/donl-placement/fu-non-first-fragment-carries-donl", "with AddDONL every FU fragment carries a DONL field; RFC 7798 places it only in the fragment with S=1, so a conforming reader (and H265Packet) takes it as payload of fragments 2..%d", fuFrags)
						fu = alt
					}
				}
				got = append(got, fu)
			}
		default:
			c.Violate("shape", "C14/shape/unexpected-form", "payloader output decoded as %T", q)
		}
	})
	if nontrivial {
		c.Fingerprint(append([]uint64{1, b2u(donl), b2u(skipAgg), uint64(mtu / 4)}, fp...)...)
	}
	if len(c.Viol) > 0 {
		return
	}
	if inFU {
		// an FU train without E: decide between the two known shapes by what was expected next
		if fuFrags == 1 {
			abandoned("the end of the stream")
		} else {
			c.Violate("shape", "C14/shape/fu-no-end", "the last FU train has no E fragment")
		}
		return
	}
	if len(got) != len(expected) {
		c.Violate("lossless", "C14/lossless/count-differs", "sent %d units, reassembled %d (mtu %d donl=%v skipAgg=%v)", len(expected), len(got), mtu, donl, skipAgg)
		return
	}
	for i := range expected {
		if !bytes.Equal(got[i], expected[i]) {
			what := "unit-differs"
			c.Violate("lossless", "C14/lossless/"+what, "unit %d of %d: sent type %d %d bytes, reassembled %d bytes (mtu %d donl=%v)", i, len(expected), expected[i][0]>>1&0x3F, len(expected[i]), len(got[i]), mtu, donl)
			return
		}
	}
}

func runC14Foreign(c *core.Ctx) {
	t := c.T
	donl := t.Chance(1, 3)
	if t.Chance(1, 5) {
		// WithDONL is switched between two batches on the SAME long-lived receiver
		c14foreignBatch(c, donl, nil)
		c.Probe("withdonl-toggled")
		return
	}
	c14foreignBatch(c, donl, &codecs.H265Packet{})
}

// c14foreignBatch decodes one batch of foreign payloads; with long == nil two batches with different
// DONL settings share one receiver whose WithDONL is switched in between.
func c14foreignBatch(c *core.Ctx, donl bool, long *codecs.H265Packet) {
	t := c.T
	if long == nil {
		shared := &codecs.H265Packet{}
		c14foreignBatch(c, donl, shared)
		if len(c.Viol) == 0 {
			c14foreignBatch(c, !donl, shared)
		}
		return
	}
	units := genH265Units(t, 20+t.Intn(40))
	// accessor sampling on drawn words (the property's 2^16 / 2^8 / 2^24 spaces are sampled, not enumerated)
	for k := 0; k < 4; k++ {
		w := uint16(t.Draw(1 << 16))
		h := codecs.H265NALUHeader(w)
		fu := codecs.H265FragmentationUnitHeader(uint8(t.Draw(256)))
		ts := codecs.H265TSCI(uint32(t.Draw(1<<24)) << 8)
		var okh bool
		if c.Guard("codecs.H265NALUHeader accessors", func() {
			okh = h.F() == (w>>15 != 0) && h.Type() == uint8(w>>9&0x3F) && h.LayerID() == uint8(w>>3&0x3F) && h.TID() == uint8(w&7) &&
				h.IsAggregationPacket() == (w>>9&0x3F == 48) && h.IsFragmentationUnit() == (w>>9&0x3F == 49) && h.IsPACIPacket() == (w>>9&0x3F == 50) &&
				fu.S() == (fu&0x80 != 0) && fu.E() == (fu&0x40 != 0) && fu.FuType() == uint8(fu&0x3F) &&
				ts.TL0PICIDX() == uint8(ts>>24) && ts.IrapPicID() == uint8(ts>>16) && ts.S() == (ts>>15&1 == 1) && ts.E() == (ts>>14&1 == 1) && ts.RES() == uint8(ts>>8&0x3F)
		}) {
			return
		}
		if !okh {
			c.Violate("foreign", "C14/foreign/accessor/bit-fields", "header word %#04x / FU header %#02x / TSCI %#08x: an accessor disagrees with the RFC 7798 bit layout", w, uint8(fu), uint32(ts))
			return
		}
	}
	ps, exp := foreignH265(t, units, donl)
	long.WithDONL(donl) // a receiver with a history must decode the same values as a fresh one
	for i, p := range ps {
		e := exp[i]
		rx := &codecs.H265Packet{}
		rx.WithDONL(donl)
		if i%2 == 1 {
			rx = long
		} else {
			c.Guard("codecs.H265Packet.Unmarshal", func() { _, _ = long.Unmarshal(p) })
		}
		var err error
		if c.Guard("codecs.H265Packet.Unmarshal", func() { _, err = rx.Unmarshal(p) }) {
			return
		}
		c.Ev("foreign", core.HashBytes(p))
		c.Logf("foreign form %d donl=%v payload %.6x… %d bytes -> err=%v", e.kind, donl, p, len(p), err)
		if e.kind != 0 || donl {
			c.Fingerprint(2, uint64(e.kind), b2u(donl), uint64(len(e.units)), uint64(e.phsSize), b2u(e.f0), b2u(e.s), b2u(e.e))
		}
		if err != nil {
			c.Violate("foreign", fmt.Sprintf("C14/foreign/rejected-well-formed/form%d", e.kind), "H265Packet rejected a well-formed RFC 7798 payload (form %d, donl=%v): %v", e.kind, donl, err)
			return
		}
		bad := func(field, got, want string) {
			c.Violate("foreign", fmt.Sprintf("C14/foreign/accessor/form%d/%s", e.kind, field), "form %d donl=%v: %s decoded as %s, encoded %s", e.kind, donl, field, got, want)
		}
		hdrOK := func(h codecs.H265NALUHeader) bool {
			if h.F() != e.hdr.f || h.Type() != e.hdr.typ || h.LayerID() != e.hdr.layer || h.TID() != e.hdr.tid {
				bad("payload-header", fmt.Sprintf("F=%v type=%d layer=%d tid=%d", h.F(), h.Type(), h.LayerID(), h.TID()), fmt.Sprintf("F=%v type=%d layer=%d tid=%d", e.hdr.f, e.hdr.typ, e.hdr.layer, e.hdr.tid))
				return false
			}
			return true
		}
		donlOK := func(p *uint16) bool {
			if (p == nil) != (e.donl == nil) || (p != nil && *p != *e.donl) {
				bad("DONL", u16p(p), u16p(e.donl))
				return false
			}
			return true
		}
		switch q := rx.Packet().(type) {
		case *codecs.H265SingleNALUnitPacket:
			if e.kind != 0 {
				bad("form", "single", fmt.Sprint(e.kind))
				return
			}
			if !hdrOK(q.PayloadHeader()) || !donlOK(q.DONL()) {
				return
			}
			if !bytes.Equal(q.Payload(), e.units[0]) {
				bad("payload", fmt.Sprintf("%d bytes", len(q.Payload())), fmt.Sprintf("%d bytes", len(e.units[0])))
				return
			}
		case *codecs.H265AggregationPacket:
			if e.kind != 48 {
				bad("form", "ap", fmt.Sprint(e.kind))
				return
			}
			if donl {
				c.Probe("foreign-ap-donl")
			}
			if !donlOK(q.FirstUnit().DONL()) {
				return
			}
			if len(q.OtherUnits())+1 != len(e.units) {
				bad("unit-count", fmt.Sprint(len(q.OtherUnits())+1), fmt.Sprint(len(e.units)))
				return
			}
			if !bytes.Equal(q.FirstUnit().NalUnit(), e.units[0]) || int(q.FirstUnit().NALUSize()) != len(e.units[0]) {
				bad("first-unit", fmt.Sprintf("%d bytes", len(q.FirstUnit().NalUnit())), fmt.Sprintf("%d bytes", len(e.units[0])))
				return
			}
			for j, o := range q.OtherUnits() {
				if !bytes.Equal(o.NalUnit(), e.units[j+1]) || int(o.NALUSize()) != len(e.units[j+1]) {
					bad("other-unit", fmt.Sprintf("%d bytes", len(o.NalUnit())), fmt.Sprintf("%d bytes", len(e.units[j+1])))
					return
				}
				if donl != (o.DOND() != nil) || (donl && *o.DOND() != e.donds[j]) {
					bad("DOND", "mismatch", fmt.Sprint(e.donds[j]))
					return
				}
			}
		case *codecs.H265FragmentationUnitPacket:
			if e.kind != 49 {
				bad("form", "fu", fmt.Sprint(e.kind))
				return
			}
			fh := q.FuHeader()
			if !hdrOK(q.PayloadHeader()) || !donlOK(q.DONL()) {
				return
			}
			if fh.S() != e.s || fh.E() != e.e || fh.FuType() != e.fuType {
				bad("fu-header", fmt.Sprintf("S=%v E=%v type=%d", fh.S(), fh.E(), fh.FuType()), fmt.Sprintf("S=%v E=%v type=%d", e.s, e.e, e.fuType))
				return
			}
			if !bytes.Equal(q.Payload(), e.frag) {
				bad("payload", fmt.Sprintf("%d bytes", len(q.Payload())), fmt.Sprintf("%d bytes", len(e.frag)))
				return
			}
		case *codecs.H265PACIPacket:
			if e.kind != 50 {
				bad("form", "paci", fmt.Sprint(e.kind))
				return
			}
			if !hdrOK(q.PayloadHeader()) {
				return
			}
			if q.A() != e.a || q.CType() != e.cType || q.PHSsize() != e.phsSize || q.F0() != e.f0 || q.F1() || q.F2() || q.Y() {
				bad("paci-fields", fmt.Sprintf("A=%v cType=%d PHSsize=%d F0=%v F1=%v F2=%v Y=%v", q.A(), q.CType(), q.PHSsize(), q.F0(), q.F1(), q.F2(), q.Y()),
					fmt.Sprintf("A=%v cType=%d PHSsize=%d F0=%v", e.a, e.cType, e.phsSize, e.f0))
				return
			}
			if !bytes.Equal(q.PHES(), e.phes) && !(len(q.PHES()) == 0 && len(e.phes) == 0) {
				bad("PHES", fmt.Sprintf("%x", q.PHES()), fmt.Sprintf("%x", e.phes))
				return
			}
			if !bytes.Equal(q.Payload(), e.paciBody) {
				bad("payload", fmt.Sprintf("%d bytes", len(q.Payload())), fmt.Sprintf("%d bytes", len(e.paciBody)))
				return
			}
			var ts *codecs.H265TSCI
			if c.Guard("codecs.H265PACIPacket.TSCI", func() { ts = q.TSCI() }) {
				return
			}
			if (ts != nil) != e.f0 {
				bad("TSCI-presence", fmt.Sprint(ts != nil), fmt.Sprint(e.f0))
				return
			}
			if ts != nil {
				c.Probe("foreign-paci-tsci")
				// RFC 7798 §4.5: TL0PICIDX (8) | IrapPicID (8) | S (1) | E (1) | RES (6)
				b := e.tsci
				if ts.TL0PICIDX() != b[0] || ts.IrapPicID() != b[1] || ts.S() != (b[2]&0x80 != 0) || ts.E() != (b[2]&0x40 != 0) || ts.RES() != b[2]&0x3F {
					bad("TSCI", fmt.Sprintf("TL0PICIDX=%d IrapPicID=%d S=%v E=%v RES=%d", ts.TL0PICIDX(), ts.IrapPicID(), ts.S(), ts.E(), ts.RES()),
						fmt.Sprintf("bytes %x: TL0PICIDX=%d IrapPicID=%d S=%v E=%v RES=%d", b, b[0], b[1], b[2]&0x80 != 0, b[2]&0x40 != 0, b[2]&0x3F))
					return
				}
			}
		default:
			bad("form", fmt.Sprintf("%T", q), fmt.Sprint(e.kind))
			return
		}
		// the truncating link: a payload cut so that a fixed field is missing or a declared size
		// exceeds what remains must be rejected
		for _, cut := range c14Cuts(e, p, donl) {
			rx2 := &codecs.H265Packet{}
			rx2.WithDONL(donl)
			var e2 error
			trunc := append([]byte{}, p[:cut.n]...)
			if c.Guard("codecs.H265Packet.Unmarshal", func() { _, e2 = rx2.Unmarshal(trunc) }) {
				return
			}
			c.Fault("truncate")
			if e2 == nil {
				c.Violate("foreign", fmt.Sprintf("C14/foreign/truncated-accepted/form%d/%s", e.kind, cut.what), "form %d donl=%v: payload of %d bytes cut to %d (%s) was accepted", e.kind, donl, len(p), cut.n, cut.what)
				break // non-fatal: the remaining payloads of the run are still checked
			}
			c.Probe("foreign-truncated-rejected")
		}
	}
}

type c14cut struct {
	n    int
	what string
}

// c14Cuts lists the truncation points at which a reader MUST reject: a fixed field is
// missing, or a declared size exceeds what remains.
func c14Cuts(e h265Expect, p []byte, donl bool) []c14cut {
	var cuts []c14cut
	fixed := 2 // payload header
	switch e.kind {
	case 0:
		if donl {
			fixed += 2
		}
	case 49:
		fixed++
		if donl && e.s {
			fixed += 2
		}
	case 50:
		fixed += 2 + int(e.phsSize)
	case 48:
		// inside the first unit, and inside the last unit (declared size exceeds what remains)
		first := 2
		if donl {
			first += 2
		}
		first += 2
		for n := 0; n < first+len(e.units[0]); n++ {
			cuts = append(cuts, c14cut{n, "ap-first-unit"})
		}
		last := len(e.units[len(e.units)-1])
		for n := len(p) - last; n < len(p); n++ {
			if n > first+len(e.units[0]) {
				cuts = append(cuts, c14cut{n, "ap-trailing-unit"})
			}
		}
		return cuts
	}
	for n := 0; n <= fixed && n < len(p); n++ {
		cuts = append(cuts, c14cut{n, "fixed-field"})
	}
	return cuts
}
