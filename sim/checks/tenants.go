package checks

import (
	"bytes"
	"encoding/binary"
	"fmt"
	"time"

	"github.com/pion/rtp"

	"verifsim/core"
)

// Tenants: "independent instances stay independent". Several objects of pion/rtp (payloaders,
// depacketizers, packets, packetizers, time extensions), each with its own PRE-DRAWN script of
// calls, are executed
//
//  1. alone, one after the other (the reference result of each script), and then
//  2. interleaved on fresh instances: at call granularity in the plain build, and — in the
//     instrumented build (bin/check's second pass, config "interleaved") — as simulated threads
//     that the seeded scheduler may preempt before every statement of pion/rtp and its codec
//     packages.
//
// Every statement of the properties is quantified over ONE object's own inputs and history;
// none is conditional on what other objects in the process do. So whatever an instance returns
// must not depend on the interleaving with other instances: package-level scratch buffers,
// caches, tables or pools shared between instances show up as a difference between (1) and (2).
// The scripts hold all their inputs (nothing is drawn from the tape while they run), so the only
// thing that differs between the phases is the schedule.

type digest struct{ b []byte }

func (d *digest) u(x uint64) { d.b = binary.AppendUvarint(d.b, x) }
func (d *digest) bytes(x []byte) {
	if x == nil {
		d.b = append(d.b, 'n')
	}
	d.u(uint64(len(x)))
	d.b = append(d.b, x...)
}
func (d *digest) str(s string) { d.bytes([]byte(s)) }
func (d *digest) flag(b bool) {
	if b {
		d.b = append(d.b, 1)
	} else {
		d.b = append(d.b, 0)
	}
}
func (d *digest) err(e error) { d.flag(e != nil) }

type tenantRun struct {
	dg    digest
	steps []func()
}

type tenant struct {
	kind  string // goes into the violation signature
	name  string
	start func() *tenantRun
}

func (d *digest) packet(p *rtp.Packet) {
	d.header(&p.Header)
	d.bytes(p.Payload)
	d.u(uint64(p.PaddingSize))
}

func (d *digest) header(h *rtp.Header) {
	d.u(uint64(h.Version))
	d.flag(h.Padding)
	d.flag(h.Extension)
	d.flag(h.Marker)
	d.u(uint64(h.PayloadType))
	d.u(uint64(h.SequenceNumber))
	d.u(uint64(h.Timestamp))
	d.u(uint64(h.SSRC))
	d.u(uint64(len(h.CSRC)))
	for _, x := range h.CSRC {
		d.u(uint64(x))
	}
	if h.Extension {
		d.u(uint64(h.ExtensionProfile))
		ids := h.GetExtensionIDs()
		d.bytes(ids)
		for _, id := range ids {
			d.bytes(h.GetExtension(id))
		}
	}
}

// ---- payloaders (C08, C10-C14) --------------------------------------------------------

func tenantPayloader(c *core.Ctx, kind int) tenant {
	t := c.T
	opts := drawPayloaderOpts(t, kind)
	gen := mediaGen{kind: kind}
	type call struct {
		mtu   int
		frame []byte
	}
	calls := make([]call, 1+t.Intn(4))
	for i := range calls {
		mtu := opts.minMTU() + t.Intn(40)
		if t.Chance(1, 4) {
			mtu = 1200
		}
		f := gen.next(t, mtu)
		if len(f) > 20000 {
			f = f[:20000]
		}
		calls[i] = call{mtu, f}
	}
	api := "codecs.(" + kindNames[kind] + " payloader).Payload"
	return tenant{kind: kindNames[kind] + "-payloader", name: opts.String(), start: func() *tenantRun {
		r := &tenantRun{}
		p := opts.build()
		for _, cl := range calls {
			cl := cl
			r.steps = append(r.steps, func() {
				var out [][]byte
				in := append([]byte(nil), cl.frame...)
				c.Guard(api, func() { out = p.Payload(uint16(cl.mtu), in) })
				r.dg.u(uint64(len(out)))
				for _, o := range out {
					r.dg.bytes(o)
				}
			})
		}
		return r
	}}
}

// ---- depacketizers (C09, C10-C15) -----------------------------------------------------

func tenantDepack(c *core.Ctx, kind int) tenant {
	t := c.T
	opts := drawPayloaderOpts(t, kind)
	gen := mediaGen{kind: kind}
	var payloads [][]byte
	p := opts.build()
	for f := 0; f < 1+t.Intn(3) && len(payloads) < 40; f++ {
		mtu := opts.minMTU() + 2 + t.Intn(40)
		if t.Chance(1, 4) {
			mtu = 1200
		}
		fr := gen.next(t, mtu)
		if len(fr) > 4000 {
			fr = fr[:4000]
		}
		var out [][]byte
		if c.Guard("tenant-setup.Payload", func() { out = p.Payload(uint16(mtu), fr) }) {
			break
		}
		for _, o := range out {
			if len(payloads) < 40 {
				payloads = append(payloads, append([]byte(nil), o...))
			}
		}
	}
	// a lossy link: drop, truncate, duplicate
	if len(payloads) > 1 && t.Chance(1, 3) {
		i := t.Intn(len(payloads))
		payloads = append(payloads[:i], payloads[i+1:]...)
	}
	if len(payloads) > 0 && t.Chance(1, 4) {
		i := t.Intn(len(payloads))
		payloads[i] = payloads[i][:t.Intn(len(payloads[i])+1)]
	}
	zero := t.Chance(1, 4)
	api := "codecs." + kindNames[kind] + ".Unmarshal"
	return tenant{kind: kindNames[kind] + "-depacketizer", name: fmt.Sprintf("%s depacketizer zeroAlloc=%v %d payloads", kindNames[kind], zero, len(payloads)), start: func() *tenantRun {
		r := &tenantRun{}
		d := newDepackOpt(kind, zero)
		for _, pl := range payloads {
			pl := pl
			r.steps = append(r.steps, func() {
				in := append([]byte(nil), pl...)
				var out []byte
				var err error
				var head bool
				c.Guard(api, func() {
					head = d.IsPartitionHead(in)
					out, err = d.Unmarshal(in)
				})
				r.dg.flag(head)
				r.dg.err(err)
				r.dg.bytes(out)
				if err == nil {
					for _, f := range describe(d) {
						r.dg.str(f.k)
						r.dg.str(f.v)
					}
				}
			})
		}
		return r
	}}
}

// ---- packets and headers (C02, C04, C05, C20) -----------------------------------------

func tenantPacket(c *core.Ctx, mode string) tenant {
	t := c.T
	specs := make([]*pktSpec, 1+t.Intn(3))
	for i := range specs {
		specs[i] = genPacketSpec(t, 48)
	}
	extra := t.Intn(3)
	type extOp struct {
		op  int
		id  uint8
		val []byte
	}
	var ops []extOp
	if mode == "ext" {
		for i := 0; i < 2+t.Intn(8); i++ {
			ops = append(ops, extOp{op: t.Intn(4), id: uint8(1 + t.Intn(14)), val: t.Bytes(1 + t.Intn(16))})
		}
	}
	return tenant{kind: "packet-" + mode, name: fmt.Sprintf("packet/%s %d packets", mode, len(specs)), start: func() *tenantRun {
		r := &tenantRun{}
		rx := &rtp.Packet{}
		rh := &rtp.Header{}
		for _, sp := range specs {
			sp := sp
			switch mode {
			case "unmarshal":
				img := sp.encode()
				r.steps = append(r.steps, func() {
					in := append([]byte(nil), img...)
					var err, err2 error
					var n int
					c.Guard("rtp.Packet.Unmarshal", func() { err = rx.Unmarshal(in) })
					r.dg.err(err)
					if err == nil {
						r.dg.packet(rx)
					}
					c.Guard("rtp.Header.Unmarshal", func() { n, err2 = rh.Unmarshal(in) })
					r.dg.err(err2)
					if err2 == nil {
						r.dg.u(uint64(n))
						r.dg.header(rh)
					}
				})
			case "marshalto":
				r.steps = append(r.steps, func() {
					p, ok := sp.build(c)
					if !ok {
						return
					}
					var size, n int
					var err error
					var dst []byte
					c.Guard("rtp.Packet.MarshalTo", func() {
						size = p.MarshalSize()
						dst = bytes.Repeat([]byte{0xAA}, size+extra)
						n, err = p.MarshalTo(dst)
					})
					r.dg.u(uint64(size))
					r.dg.u(uint64(n))
					r.dg.err(err)
					r.dg.bytes(dst)
					var hb []byte
					c.Guard("rtp.Header.MarshalTo", func() {
						hb = bytes.Repeat([]byte{0x55}, p.Header.MarshalSize()+extra)
						n, err = p.Header.MarshalTo(hb)
					})
					r.dg.u(uint64(n))
					r.dg.err(err)
					r.dg.bytes(hb)
				})
			case "clone":
				r.steps = append(r.steps, func() {
					p, ok := sp.build(c)
					if !ok {
						return
					}
					var cl *rtp.Packet
					var hc rtp.Header
					var b1, b2 []byte
					var e1, e2 error
					c.Guard("rtp.Packet.Clone", func() {
						cl = p.Clone()
						hc = p.Header.Clone()
					})
					if cl == nil {
						return
					}
					if len(p.Payload) > 0 {
						p.Payload[0] ^= 0xFF
					}
					for i := range p.CSRC {
						p.CSRC[i] ^= 0xFFFFFFFF
					}
					c.Guard("rtp.Packet.Marshal", func() {
						b1, e1 = cl.Marshal()
						b2, e2 = hc.Marshal()
					})
					r.dg.err(e1)
					r.dg.bytes(b1)
					r.dg.err(e2)
					r.dg.bytes(b2)
					r.dg.packet(cl)
				})
			}
		}
		if mode == "ext" {
			h := &rtp.Header{}
			for _, o := range ops {
				o := o
				r.steps = append(r.steps, func() {
					var err error
					var got []byte
					c.Guard("rtp.Header.(extension accessors)", func() {
						switch o.op {
						case 0, 1:
							err = h.SetExtension(o.id, append([]byte(nil), o.val...))
						case 2:
							err = h.DelExtension(o.id)
						case 3:
							got = h.GetExtension(o.id)
						}
					})
					r.dg.err(err)
					r.dg.bytes(got)
					r.dg.header(h)
				})
			}
			r.steps = append(r.steps, func() {
				var b []byte
				var err, err2 error
				h2 := &rtp.Header{}
				c.Guard("rtp.Header.Marshal", func() {
					b, err = h.Marshal()
					if err == nil {
						_, err2 = h2.Unmarshal(b)
					}
				})
				r.dg.err(err)
				r.dg.bytes(b)
				r.dg.err(err2)
				if err == nil && err2 == nil {
					r.dg.header(h2)
				}
			})
		}
		return r
	}}
}

// ---- packetizer (C06) -----------------------------------------------------------------

func tenantPacketizer(c *core.Ctx) tenant {
	t := c.T
	kind := []int{kVP8, kH264, kG711, kOpus, kH265, kAV1Dep}[t.Intn(6)]
	opts := drawPayloaderOpts(t, kind)
	gen := mediaGen{kind: kind}
	mtu := 40 + opts.minMTU() + t.Intn(80)
	if t.Chance(1, 3) {
		mtu = 1200
	}
	pt := uint8(t.Intn(128))
	ssrc := uint32(t.Draw(1 << 32))
	startSeq := uint16(65535 - t.Intn(8))
	absID := 0
	if t.Chance(1, 2) {
		absID = 1 + t.Intn(20)
	}
	base := time.Unix(1_600_000_000+int64(t.Intn(1<<20)), int64(t.Intn(1_000_000_000)))
	type call struct {
		op      int
		frame   []byte
		samples uint32
	}
	calls := make([]call, 1+t.Intn(4))
	for i := range calls {
		calls[i] = call{op: t.Weighted(6, 1, 1), samples: uint32(t.Intn(4000))}
		if calls[i].op == 0 {
			f := gen.next(t, mtu-12)
			if len(f) > 6000 {
				f = f[:6000]
			}
			calls[i].frame = f
		}
	}
	return tenant{kind: "packetizer", name: fmt.Sprintf("packetizer mtu=%d %s abs=%d", mtu, opts, absID), start: func() *tenantRun {
		r := &tenantRun{}
		var pk rtp.Packetizer
		now := base
		var ts0 uint32
		haveTS := false
		r.steps = append(r.steps, func() {
			c.Guard("rtp.NewPacketizer", func() {
				pk = rtp.NewPacketizer(uint16(mtu), pt, ssrc, opts.build(), rtp.NewFixedSequencer(startSeq), 90000)
				rtp.VerifSetPacketizerClock(pk, func() time.Time { return now })
				if absID > 0 {
					pk.EnableAbsSendTime(absID)
				}
			})
		})
		for i, cl := range calls {
			i, cl := i, cl
			r.steps = append(r.steps, func() {
				if pk == nil {
					return
				}
				now = base.Add(time.Duration(i) * 20 * time.Millisecond)
				var pkts []*rtp.Packet
				c.Guard("rtp.Packetizer.(call)", func() {
					switch cl.op {
					case 0:
						pkts = pk.Packetize(append([]byte(nil), cl.frame...), cl.samples)
					case 1:
						pkts = pk.GeneratePadding(cl.samples % 4)
					case 2:
						pk.SkipSamples(cl.samples)
					}
				})
				r.dg.u(uint64(len(pkts)))
				for _, p := range pkts {
					if !haveTS {
						ts0, haveTS = p.Timestamp, true
					}
					q := *p
					q.Timestamp -= ts0 // the initial timestamp is random by contract
					r.dg.packet(&q)
				}
			})
		}
		return r
	}}
}

// ---- time extensions (C18) ------------------------------------------------------------

func tenantTime(c *core.Ctx) tenant {
	t := c.T
	type item struct {
		send, recv, capT time.Time
		off              time.Duration
		withOff          bool
	}
	items := make([]item, 1+t.Intn(4))
	for i := range items {
		s := time.Unix(1_500_000_000+int64(t.Intn(1<<28)), int64(t.Intn(1_000_000_000)))
		items[i] = item{send: s, recv: s.Add(time.Duration(t.Intn(60_000_000_000))), capT: s.Add(-time.Duration(t.Intn(1_000_000_000))),
			off: time.Duration(int64(t.Intn(1<<40)) - 1<<39), withOff: t.Bool()}
	}
	return tenant{kind: "time-extensions", name: fmt.Sprintf("time extensions, %d instants", len(items)), start: func() *tenantRun {
		r := &tenantRun{}
		for _, it := range items {
			it := it
			r.steps = append(r.steps, func() {
				c.Guard("rtp.(time extensions)", func() {
					st := rtp.NewAbsSendTimeExtension(it.send)
					b, err := st.Marshal()
					r.dg.err(err)
					r.dg.bytes(b)
					var rs rtp.AbsSendTimeExtension
					r.dg.err(rs.Unmarshal(b))
					r.dg.u(uint64(rs.Estimate(it.recv).UnixNano()))
					var ct *rtp.AbsCaptureTimeExtension
					if it.withOff {
						ct = rtp.NewAbsCaptureTimeExtensionWithCaptureClockOffset(it.capT, it.off)
					} else {
						ct = rtp.NewAbsCaptureTimeExtension(it.capT)
					}
					b2, err2 := ct.Marshal()
					r.dg.err(err2)
					r.dg.bytes(b2)
					var rc rtp.AbsCaptureTimeExtension
					r.dg.err(rc.Unmarshal(b2))
					r.dg.u(uint64(rc.CaptureTime().UnixNano()))
					if d := rc.EstimatedCaptureClockOffsetDuration(); d != nil {
						r.dg.u(uint64(*d))
					} else {
						r.dg.flag(false)
					}
				})
			})
		}
		return r
	}}
}

// ---- the runner -----------------------------------------------------------------------

// runTenants is the body of config "interleaved" of every check that registers Tenants.
func runTenants(c *core.Ctx, mk func(c *core.Ctx, i int) tenant) {
	t := c.T
	k := 2 + t.Intn(2)
	ts := make([]tenant, k)
	for i := range ts {
		ts[i] = mk(c, i)
		c.Logf("tenant %d: %s", i, ts[i].name)
	}
	if len(c.Viol) > 0 {
		return // a panic while a script was prepared belongs to the single-instance worlds
	}
	solo := make([][]byte, k)
	for i, tn := range ts {
		r := tn.start()
		for _, s := range r.steps {
			s()
		}
		solo[i] = r.dg.b
	}
	if len(c.Viol) > 0 {
		return // the scripts misbehave even alone: nothing to compare against
	}
	runs := make([]*tenantRun, k)
	total := 0
	for i := range ts {
		runs[i] = ts[i].start()
		total += len(runs[i].steps)
	}
	mode := interleaveTenants(c, runs)
	for i := range ts {
		if !bytes.Equal(runs[i].dg.b, solo[i]) {
			at := 0
			for at < len(solo[i]) && at < len(runs[i].dg.b) && solo[i][at] == runs[i].dg.b[at] {
				at++
			}
			c.Violate("isolation", fmt.Sprintf("%s/interleaved-instances/%s", c.Property, ts[i].kind),
				"%s: its results differ from the results of the same calls executed alone (first difference at result byte %d of %d/%d), %s interleaving with %d other independent instance(s)",
				ts[i].name, at, len(solo[i]), len(runs[i].dg.b), mode, k-1)
		}
	}
	c.Stats.SimTimeNs += int64(total) * 1000
}

// interleaveCalls interleaves the scripts at call granularity (no preemption inside a call).
func interleaveCalls(c *core.Ctx, runs []*tenantRun) {
	pos := make([]int, len(runs))
	var fp uint64
	for {
		var live []int
		for i, r := range runs {
			if pos[i] < len(r.steps) {
				live = append(live, i)
			}
		}
		if len(live) == 0 {
			break
		}
		i := live[c.T.Intn(len(live))]
		fp = core.Mix(fp ^ uint64(i+1))
		c.Ev("tenant-step", uint64(i), uint64(pos[i]))
		runs[i].steps[pos[i]]()
		pos[i]++
	}
	c.Fault("call-interleaving")
	c.Fingerprint(fp, uint64(len(runs)))
}

// tenantCodec draws a payloader (two in three) or a depacketizer of one codec in one of two variants.
func tenantCodec(c *core.Ctx, kindA, kindB int) tenant {
	kind := kindA
	if c.T.Bool() {
		kind = kindB
	}
	if c.T.Chance(2, 3) {
		return tenantPayloader(c, kind)
	}
	return tenantDepack(c, kind)
}
