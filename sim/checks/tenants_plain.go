//go:build !verifsched

package checks

import "verifsim/core"

// SchedBuild reports whether this binary was built against the instrumented overlay.
const SchedBuild = false

func interleaveTenants(c *core.Ctx, runs []*tenantRun) string {
	interleaveCalls(c, runs)
	return "call-level"
}
