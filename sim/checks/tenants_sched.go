//go:build verifsched

package checks

import "verifsim/core"

// SchedBuild reports whether this binary was built against the instrumented overlay.
const SchedBuild = true

// interleaveTenants runs each script on its own simulated thread; the seeded scheduler may
// preempt a thread before every statement of pion/rtp and its codec packages.
func interleaveTenants(c *core.Ctx, runs []*tenantRun) string {
	if c.Config != "interleaved" {
		interleaveCalls(c, runs)
		return "call-level"
	}
	den := uint64([]int{4, 2, 8, 16, 64, 3}[c.T.Intn(6)])
	sim := newSchedSim(c, den)
	sim.noAccessTracking = true
	if c.T.Chance(1, 4) {
		sim.lockstep = 1 + c.T.Intn(3) // all instances move through the same code together (§3.6, lock-step policy)
	}
	for _, r := range runs {
		r := r
		sim.spawn(func(th *simThread) {
			for _, s := range r.steps {
				sim.yield(-1)
				th.inOp = true
				s()
				th.inOp = false
			}
		})
	}
	sim.run()
	if sim.livelock {
		return "statement-level"
	}
	if sim.deadlock {
		c.Violate("deadlock", c.Property+"/interleaved-instances/deadlock", "independent instances block each other: no runnable thread while some wait for a lock")
	}
	if sim.preemptOps > 0 {
		c.Fingerprint(sim.fp, uint64(len(runs)))
	}
	return "statement-level"
}
