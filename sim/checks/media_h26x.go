package checks

import (
	"bytes"
	"encoding/binary"

	"verifsim/core"
)

// ---- NAL unit bodies -------------------------------------------------------------
// What an encoder guarantees: no start-code emulation (no two consecutive zero bytes)
// and no trailing zero byte.

func nalBody(t *core.Tape, n int) []byte {
	b := t.Bytes(n)
	if n > 0 && t.Chance(1, 8) {
		// start-code look-alikes: bodies over the alphabet {00, 01, 02, 03, FF} (the invariant "no two
		// consecutive zeros, no trailing zero" is restored below), e.g. 00 01 00 01, 01 00 01, 00 02
		for i := range b {
			b[i] = []byte{0x00, 0x01, 0x01, 0x02, 0x03, 0xFF, 0x00, 0x01}[b[i]&7]
		}
	}
	for i := range b {
		if b[i] == 0 && (i == 0 || b[i-1] == 0 || i == len(b)-1) {
			b[i] = 0x80 | byte(i)
		}
	}
	if n > 0 && b[n-1] == 0 {
		b[n-1] = 0x5A
	}
	// emulation-prevention sequences 00 00 03 are legal inside (and at the end of) a NAL unit
	if n >= 4 && t.Chance(1, 6) {
		i := t.Intn(n - 2)
		if i == 0 || b[i-1] != 0 {
			b[i], b[i+1], b[i+2] = 0, 0, 3
			if i+3 < n && b[i+3] == 0 {
				b[i+3] = 0x81
			}
		}
	}
	return b
}

// nalSize draws a NAL unit size around the fragmentation thresholds of mtu.
func nalSize(t *core.Tape, mtu, min, hdr int) int {
	if mtu < min {
		mtu = min
	}
	var n int
	switch t.Weighted(3, 2, 2, 2, 2, 2, 2, 1) {
	case 0:
		n = min + t.Intn(6)
	case 1:
		n = mtu - 1 - t.Intn(3)
	case 2:
		n = mtu
	case 3:
		n = mtu + 1 + t.Intn(2)
	case 4:
		k := 1 + t.Intn(4)
		n = k*(mtu-hdr) + 1 + t.Range(-1, 1)
	case 5:
		n = mtu + t.Intn(4*mtu+1)
	case 6:
		n = min + t.Intn(mtu)
	case 7:
		n = 5*mtu + t.Intn(8)
	}
	if n < min {
		n = min
	}
	if n > 60000 {
		n = 60000
	}
	return n
}

// ---- H264 ------------------------------------------------------------------------

type h264AU struct {
	units  [][]byte // every NAL unit written to the buffer, in order (incl. AUD / filler)
	annexb []byte
}

// genH264AU draws one access unit (one Payload call): 1-6 NAL units, types 1-23, with
// SPS+PPS pairs (adjacent; possibly split across calls), AUD and filler units sprinkled,
// 3- or 4-byte start codes. *state carries the parameter-set protocol across calls:
// 0 nothing held, 1 = a SPS was sent and its PPS must come next, 2 = a pair is held and
// the next non-AUD/filler unit must be an ordinary unit (a second pair before that unit
// would overwrite the first by design of the hold-back; the property speaks of pairs
// that arrive "before the next unit").
func genH264AU(t *core.Tape, mtu int, allowParams bool, state *int) h264AU {
	return genH264AUx(t, mtu, allowParams, state, false)
}

// genH264AUx: with supersede, SPS and PPS units are sprinkled freely (not in pairs).
// h264SharedPrefix, when non-nil, is copied over the first bytes of every ordinary unit's body: consecutive
// slices of a real stream share their first bytes (slice header), so fragments of different units can be equal.
var h264SharedPrefix []byte

func genH264AUx(t *core.Tape, mtu int, allowParams bool, state *int, supersede bool) h264AU {
	return genH264AUm(t, mtu, allowParams, state, supersede, nil)
}

// h264Memo remembers the last SPS/PPS pair of a stream: real encoders repeat the SAME parameter sets before
// every IDR picture, so a quarter of the pairs of a stream with a memo are byte-identical repeats.
type h264Memo struct {
	sps, pps []byte
	repeat   bool
}

func genH264AUm(t *core.Tape, mtu int, allowParams bool, state *int, supersede bool, memo *h264Memo) h264AU {
	var au h264AU
	n := 1 + t.Intn(6)
	add := func(typ, nri byte, size int) {
		u := make([]byte, 0, size)
		u = append(u, nri<<5|typ)
		u = append(u, nalBody(t, size-1)...)
		au.units = append(au.units, u)
	}
	ordinary := func() {
		if t.Chance(1, 10) {
			for j := len(au.units) - 1; j >= 0; j-- {
				if ty := au.units[j][0] & 0x1F; ty != 7 && ty != 8 && ty != 9 && ty != 12 && len(au.units[j]) < 4000 {
					sib := siblingUnit(t, au.units[j], 1)
					if len(sib) >= 2 && sib[len(sib)-1] != 0 {
						au.units = append(au.units, sib)
						*state = 0
						return
					}
					break
				}
			}
		}
		typ := byte([]int{1, 5, 6, 2, 19, 23, 10, 13}[t.Intn(8)])
		if t.Chance(1, 4) {
			typ = byte(1 + t.Intn(23))
			for typ == 7 || typ == 8 || typ == 9 || typ == 12 {
				typ = byte(1 + t.Intn(23))
			}
		}
		size := nalSize(t, mtu, 2, 2)
		if t.Chance(1, 400) && mtu >= 1000 {
			size = 65530 + t.Intn(3000) // larger than any 16-bit length: key frames of real encoders are
			if t.Chance(1, 3) {
				size = []int{1 << 18, 1 << 19, 1 << 20}[t.Intn(3)] - 2000 + t.Intn(4000) // 4K intra pictures: hundreds of KiB in one unit
			}
		}
		add(typ, byte(t.Intn(4)), size)
		if h264SharedPrefix != nil {
			u := au.units[len(au.units)-1]
			u[0] = h264SharedPrefix[0]
			copy(u[1:], h264SharedPrefix[1:])
			if u[len(u)-1] == 0 {
				u[len(u)-1] = 0x5A
			}
		}
		*state = 0
	}
	for i := 0; i < n; i++ {
		psize := func(base int) int {
			if mtu >= 600 && t.Chance(1, 6) {
				return 200 + t.Intn(500) // parameter sets with VUI / scaling lists are several hundred bytes long
			}
			if mtu >= 1000 && t.Chance(1, 300) {
				return 65530 + t.Intn(3000) // the statement bounds no unit's size: a parameter set beyond 16-bit lengths
			}
			return 2 + t.Intn(base)
		}
		if *state == 1 {
			if memo != nil && memo.repeat && memo.pps != nil {
				au.units = append(au.units, append([]byte(nil), memo.pps...))
			} else {
				add(8, byte(t.Intn(4)), psize(12))
				if memo != nil {
					memo.pps = append([]byte(nil), au.units[len(au.units)-1]...)
				}
			}
			*state = 2
			continue
		}
		switch t.Weighted(10, 2, 1, 1) {
		case 0:
			ordinary()
		case 1:
			if supersede && allowParams {
				// free-form parameter sets: a later SPS/PPS may supersede a held one
				add(byte(7+t.Intn(2)), byte(t.Intn(4)), 2+t.Intn(20))
				continue
			}
			if !allowParams || *state != 0 {
				ordinary()
				continue
			}
			if memo != nil && memo.sps != nil && memo.pps != nil && t.Chance(1, 4) {
				au.units = append(au.units, append([]byte(nil), memo.sps...))
				memo.repeat = true
			} else {
				add(7, byte(t.Intn(4)), psize(20))
				if memo != nil {
					memo.sps, memo.pps, memo.repeat = append([]byte(nil), au.units[len(au.units)-1]...), nil, false
				}
			}
			*state = 1
		case 2:
			add(9, 0, 2) // AUD
		case 3:
			add(12, 0, 2+t.Intn(5)) // filler
		}
	}
	au.annexb = annexB(t, au.units)
	return au
}

// siblingUnit returns a copy of u (a NAL unit with hdr header bytes) that differs in one place: one body
// byte changed (to a value that cannot complete a start code), the last byte dropped, or one byte added.
// Consecutive units of real streams are often near-identical; anything keyed on "looks the same" meets it here.
func siblingUnit(t *core.Tape, u []byte, hdr int) []byte {
	v := append([]byte(nil), u...)
	switch t.Intn(4) {
	case 0:
		return v // an exact repeat
	case 1:
		if len(v) > hdr+1 {
			return v[:len(v)-1-b2i(v[len(v)-2] == 0)] // never leave a trailing zero
		}
	case 2:
		return append(v, byte(0x80|t.Intn(128)))
	}
	if len(v) > hdr {
		i := hdr + t.Intn(len(v)-hdr)
		v[i] = byte(0x80 | t.Intn(128))
	}
	return v
}

func b2i(b bool) int {
	if b {
		return 1
	}
	return 0
}

// annexB frames units with 3- or 4-byte start codes drawn per unit.
func annexB(t *core.Tape, units [][]byte) []byte {
	var b []byte
	for _, u := range units {
		if t.Chance(1, 3) {
			b = append(b, 0, 0, 0, 1)
		} else {
			b = append(b, 0, 0, 1)
		}
		b = append(b, u...)
	}
	return b
}

// splitAnnexB4 splits a depacketizer's Annex-B output (4-byte start codes) into units.
func splitAnnexB4(b []byte) ([][]byte, bool) {
	var out [][]byte
	sc := []byte{0, 0, 0, 1}
	if len(b) == 0 {
		return nil, true
	}
	if !bytes.HasPrefix(b, sc) {
		return nil, false
	}
	b = b[4:]
	for {
		i := bytes.Index(b, sc)
		if i < 0 {
			out = append(out, b)
			return out, true
		}
		out = append(out, b[:i])
		b = b[i+4:]
	}
}

// splitAVC splits a depacketizer's AVC output (4-byte big-endian length prefixes).
func splitAVC(b []byte) ([][]byte, bool) {
	var out [][]byte
	for len(b) > 0 {
		if len(b) < 4 {
			return out, false
		}
		n := int(binary.BigEndian.Uint32(b))
		b = b[4:]
		if n > len(b) {
			return out, false
		}
		out = append(out, b[:n])
		b = b[n:]
	}
	return out, true
}

// h264Payload is the model's RFC 6184 view of one RTP payload.
type h264Payload struct {
	kind    int // 1 single, 24 STAP-A, 28 FU-A, 0 malformed/other
	units   [][]byte
	f       byte
	nri     byte
	s, e, r bool
	fuType  byte
	frag    []byte
}

func parseH264Payload(p []byte) h264Payload {
	var r h264Payload
	if len(p) == 0 {
		return r
	}
	typ := p[0] & 0x1F
	r.f = p[0] >> 7
	r.nri = p[0] >> 5 & 3
	switch {
	case typ >= 1 && typ <= 23:
		r.kind = 1
		r.units = [][]byte{p}
	case typ == 24:
		q := p[1:]
		for len(q) > 0 {
			if len(q) < 2 {
				return h264Payload{}
			}
			n := int(binary.BigEndian.Uint16(q))
			q = q[2:]
			if n > len(q) || n == 0 {
				return h264Payload{}
			}
			r.units = append(r.units, q[:n])
			q = q[n:]
		}
		if len(r.units) == 0 {
			return h264Payload{}
		}
		r.kind = 24
	case typ == 28:
		if len(p) < 2 {
			return r
		}
		r.kind = 28
		r.s = p[1]&0x80 != 0
		r.e = p[1]&0x40 != 0
		r.r = p[1]&0x20 != 0
		r.fuType = p[1] & 0x1F
		r.frag = p[2:]
	}
	return r
}

// foreignH264 is the independent RFC 6184 packetizer standing in for a foreign peer:
// single NAL unit packets, STAP-A with 1-5 units, FU-A with drawn fragment sizes
// (including empty middle fragments).
func foreignH264(t *core.Tape, units [][]byte) [][]byte {
	var out [][]byte
	for i := 0; i < len(units); {
		u := units[i]
		switch t.Weighted(3, 2, 3) {
		case 0:
			out = append(out, append([]byte{}, u...))
			i++
		case 1:
			k := 1 + t.Intn(5)
			if i+k > len(units) {
				k = len(units) - i
			}
			tooBig := false
			for _, x := range units[i : i+k] {
				if len(x) > 0xFFFF {
					tooBig = true // a STAP-A size field has 16 bits
				}
			}
			if tooBig {
				continue
			}
			var maxNRI byte
			for _, x := range units[i : i+k] {
				if n := x[0] >> 5 & 3; n > maxNRI {
					maxNRI = n
				}
			}
			p := []byte{maxNRI<<5 | 24}
			for _, x := range units[i : i+k] {
				p = append(p, byte(len(x)>>8), byte(len(x)))
				p = append(p, x...)
			}
			out = append(out, p)
			i += k
		case 2:
			body := u[1:]
			nfrag := 2 + t.Intn(4)
			pos := 0
			for f := 0; f < nfrag; f++ {
				var l int
				if f == nfrag-1 {
					l = len(body) - pos
				} else {
					l = t.Intn(len(body) - pos + 1)
					if t.Chance(1, 6) {
						l = 0 // RFC 6184: an FU payload MAY be empty
					}
				}
				h := u[0] & 0x1F
				if f == 0 {
					h |= 0x80
				}
				if f == nfrag-1 {
					h |= 0x40
				}
				p := []byte{u[0]&0xE0 | 28, h}
				p = append(p, body[pos:pos+l]...)
				out = append(out, p)
				pos += l
			}
			i++
		}
	}
	return out
}

// ---- H265 ------------------------------------------------------------------------

// genH265Units draws 1-6 HEVC NAL units: F=0, type 0-47, layer id 0-63, TID 1-7 (a
// zero nuh_temporal_id_plus1 is forbidden by HEVC and would make the header emulate a
// start code), >= 1 payload byte, sizes around the mtu thresholds.
func genH265Units(t *core.Tape, mtu int) [][]byte {
	n := 1 + t.Intn(6)
	var units [][]byte
	for i := 0; i < n; i++ {
		if i > 0 && t.Chance(1, 10) && len(units[i-1]) < 4000 {
			if sib := siblingUnit(t, units[i-1], 2); len(sib) >= 3 && sib[len(sib)-1] != 0 {
				units = append(units, sib)
				continue
			}
		}
		typ := byte([]int{1, 19, 32, 33, 34, 39, 0, 21, 47, 40}[t.Intn(10)])
		if t.Chance(1, 4) {
			typ = byte(t.Intn(48))
		}
		layer := byte(0)
		if t.Chance(1, 3) {
			layer = byte(t.Intn(64))
		}
		tid := byte(1 + t.Intn(7))
		if t.Chance(1, 6) && !(typ == 0 && layer < 32) {
			tid = 0 // not a legal HEVC value, but a legal RFC 7798 header word; excluded only where the header would read 00 00
		}
		size := nalSize(t, mtu, 3, 3)
		if mtu >= 30000 && t.Chance(1, 2) {
			size = 20000 + t.Intn(45000)
		}
		u := make([]byte, 0, size)
		u = append(u, typ<<1|layer>>5, layer<<3|tid)
		u = append(u, nalBody(t, size-2)...)
		units = append(units, u)
	}
	return units
}

type h265Hdr struct {
	f         bool
	typ       byte
	layer     byte
	tid       byte
	b0, b1    byte
	hasFields bool
}

func parseH265Hdr(b []byte) h265Hdr {
	if len(b) < 2 {
		return h265Hdr{}
	}
	return h265Hdr{f: b[0]&0x80 != 0, typ: b[0] >> 1 & 0x3F, layer: (b[0]&1)<<5 | b[1]>>3, tid: b[1] & 7, b0: b[0], b1: b[1], hasFields: true}
}

func mkH265Hdr(typ, layer, tid byte) []byte {
	return []byte{typ<<1 | layer>>5, layer<<3 | tid}
}

// foreignH265 is the model's RFC 7798 writer: single / AP (2-5 units) / FU payloads with
// or without DONL/DOND. It returns the payloads and, per payload, what the model expects
// a reader to see.
type h265Expect struct {
	kind   int // 0 single, 48 AP, 49 FU, 50 PACI
	hdr    h265Hdr
	donl   *uint16
	units  [][]byte // single: [payload after header(+donl)], AP: the units
	donds  []uint8
	s, e   bool
	fuType byte
	frag   []byte
	// PACI
	a        bool
	cType    byte
	phsSize  byte
	f0, f1   bool
	f2, y    bool
	phes     []byte
	paciBody []byte
	tsci     [3]byte
}

func foreignH265(t *core.Tape, units [][]byte, donl bool) ([][]byte, []h265Expect) {
	return foreignH265x(t, units, donl, false)
}

// foreignH265x: with inconsistent set, some PACI packets announce a TSCI (F0) in a header
// extension too short to hold one, and some carry almost no payload — forms only a broken or
// hostile peer sends, for the panic-freedom worlds (no decode expectation exists for them).
func foreignH265x(t *core.Tape, units [][]byte, donl, inconsistent bool) ([][]byte, []h265Expect) {
	var out [][]byte
	var exp []h265Expect
	don := uint16(t.Draw(1 << 16))
	for i := 0; i < len(units); {
		u := units[i]
		h := parseH265Hdr(u)
		switch t.Weighted(3, 2, 3, 2) {
		case 0: // single
			p := append([]byte{}, u[:2]...)
			e := h265Expect{kind: 0, hdr: h}
			if donl {
				d := don
				don++
				p = append(p, byte(d>>8), byte(d))
				e.donl = &d
			}
			p = append(p, u[2:]...)
			e.units = [][]byte{u[2:]}
			out, exp = append(out, p), append(exp, e)
			i++
		case 1: // AP
			k := 2 + t.Intn(4)
			if i+k > len(units) {
				k = len(units) - i
			}
			if k < 2 {
				continue
			}
			minL, minT := byte(63), byte(7)
			for _, x := range units[i : i+k] {
				xh := parseH265Hdr(x)
				if xh.layer < minL {
					minL = xh.layer
				}
				if xh.tid < minT {
					minT = xh.tid
				}
			}
			p := mkH265Hdr(48, minL, minT)
			e := h265Expect{kind: 48, hdr: parseH265Hdr(p)}
			for j, x := range units[i : i+k] {
				if donl {
					if j == 0 {
						d := don
						p = append(p, byte(d>>8), byte(d))
						e.donl = &d
					} else {
						dd := uint8(t.Intn(256))
						p = append(p, dd)
						e.donds = append(e.donds, dd)
					}
					don++
				}
				p = append(p, byte(len(x)>>8), byte(len(x)))
				p = append(p, x...)
				e.units = append(e.units, x)
			}
			out, exp = append(out, p), append(exp, e)
			i += k
		case 2: // FU
			body := u[2:]
			nfrag := 2 + t.Intn(3)
			if len(body) < nfrag {
				nfrag = 2
			}
			if len(body) < 2 {
				continue
			}
			pos := 0
			for f := 0; f < nfrag; f++ {
				l := 1 + t.Intn(len(body)-pos-(nfrag-1-f))
				if f == nfrag-1 {
					l = len(body) - pos
				}
				p := mkH265Hdr(49, h.layer, h.tid)
				fh := h.typ
				e := h265Expect{kind: 49, hdr: parseH265Hdr(p), fuType: h.typ}
				if f == 0 {
					fh |= 0x80
					e.s = true
				}
				if f == nfrag-1 {
					fh |= 0x40
					e.e = true
				}
				p = append(p, fh)
				if donl && f == 0 {
					d := don
					don++
					p = append(p, byte(d>>8), byte(d))
					e.donl = &d
				}
				p = append(p, body[pos:pos+l]...)
				e.frag = body[pos : pos+l]
				out, exp = append(out, p), append(exp, e)
				pos += l
			}
			i++
		case 3: // PACI carrying the unit
			e := h265Expect{kind: 50}
			e.a = false
			e.cType = h.typ
			if t.Chance(1, 4) {
				e.cType = byte([]int{49, 48, 50, 63}[t.Intn(4)]) // a PACI payload may itself be an FU / AP-like structure
			}
			e.f0 = t.Bool()
			e.phsSize = byte(t.Intn(32))
			bad := inconsistent && t.Chance(1, 3)
			if e.f0 && e.phsSize < 3 && !bad {
				e.phsSize = 3 + byte(t.Intn(29))
			}
			if bad && t.Bool() {
				e.f0, e.phsSize = true, byte(t.Intn(3))
			}
			if !e.f0 && t.Chance(1, 2) {
				e.phsSize = 0
			}
			p := mkH265Hdr(50, h.layer, h.tid)
			e.hdr = parseH265Hdr(p)
			w := uint16(e.cType)<<9 | uint16(e.phsSize)<<4
			if e.f0 {
				w |= 0x08
			}
			p = append(p, byte(w>>8), byte(w))
			e.phes = t.Bytes(int(e.phsSize))
			if e.f0 && len(e.phes) >= 3 {
				copy(e.tsci[:], e.phes[:3])
			}
			p = append(p, e.phes...)
			body := u[2:]
			if bad {
				body = body[:t.Intn(minI(4, len(body)+1))]
			}
			p = append(p, body...)
			e.paciBody = body
			out, exp = append(out, p), append(exp, e)
			i++
		}
	}
	return out, exp
}
