//go:build !verifsched

package checks

import "verifsim/core"

// Without the instrumented overlay (build tag verifsched) C07 cannot run; bin/check
// always builds the instrumented binary for it. This stub only guards against misuse.
func init() {
	register(&Check{ID: "C07", Level: "exploration", Configs: []string{"direct"}, QuickRuns: 1, ThoroughSec: 1,
		Run: func(c *core.Ctx) { panic("C07 needs the instrumented build: use bin/check C07") }})
}
