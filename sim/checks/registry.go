// Package checks holds the simulated worlds, reference models and oracles, one file
// (or a few) per property. Everything that calls pion/rtp goes through core.Ctx.Guard.
package checks

import (
	"fmt"
	"runtime/debug"
	"sort"

	"verifsim/core"
)

// Check describes one registered property check.
type Check struct {
	ID          string
	Level       string   // exploration | fault_enumeration
	Configs     []string // run i uses ConfigOf(i)
	Run         func(c *core.Ctx)
	PrePass     func(c *core.Ctx) int // thorough-only deterministic pre-pass; returns cases executed
	Rule        string                // how cases are generated and what counts as distinct/non-trivial
	Real, Stub  []string
	Assumptions []string
	QuickRuns   int // total runs in the quick tier
	ThoroughSec int // wall budget of the thorough tier
	NeedsSched  bool
	ProbeNames  []string // probes that a thorough run is expected to hit (warning if zero)
	// Tenants builds the i-th independent instance (with its pre-drawn script) of the
	// "interleaved" configuration (tenants.go); nil: the check has no such configuration.
	Tenants func(c *core.Ctx, i int) tenant
}

// InterleavedConfig is the configuration in which independent instances are interleaved: at call
// granularity in the plain build (one run in 16), at statement granularity in bin/check's second
// pass with the instrumented build (every run of that pass).
const InterleavedConfig = "interleaved"

// AllConfigs lists the distinct configurations of the check.
func (c *Check) AllConfigs() []string {
	seen := map[string]bool{}
	var out []string
	for _, k := range c.Configs {
		if !seen[k] {
			seen[k] = true
			out = append(out, k)
		}
	}
	if c.Tenants != nil {
		out = append(out, InterleavedConfig)
	}
	return out
}

// ConfigOf returns the configuration of run idx: a fixed pseudo-random assignment, so that the
// mix of configurations is the same for every worker count and every worker sees every
// configuration (idx % len would pin a worker to one configuration when len divides the stride).
func (c *Check) ConfigOf(idx int64) string {
	if c.Tenants != nil && core.Mix(uint64(idx)^0x7E4A47)%16 == 0 {
		return InterleavedConfig
	}
	return c.Configs[int(core.Mix(uint64(idx)^0xC0FFEE1234)%uint64(len(c.Configs)))]
}

// Registry maps property id to check.
var Registry = map[string]*Check{}

func register(c *Check) { Registry[c.ID] = c }

// IDs returns the registered ids, sorted.
func IDs() []string {
	var ids []string
	for k := range Registry {
		ids = append(ids, k)
	}
	sort.Strings(ids)
	return ids
}

// Execute performs one run. A panic that escapes every Guard is a harness bug and is
// returned as harnessErr (the driver then exits 2, never a VIOLATION).
func Execute(chk *Check, config, tier string, tape *core.Tape, st *core.Stats, verbose bool) (c *core.Ctx, harnessErr string) {
	c = core.NewCtx(chk.ID, config, tier, tape, st, verbose)
	core.Progress.Add(1)
	func() {
		defer func() {
			if r := recover(); r != nil {
				harnessErr = fmt.Sprintf("harness panic: %v\n%s", r, debug.Stack())
			}
		}()
		if config == InterleavedConfig && chk.Tenants != nil {
			runTenants(c, chk.Tenants)
			return
		}
		chk.Run(c)
	}()
	st.Violations += int64(len(c.Viol))
	return c, harnessErr
}
