//go:build verifsched

package checks

import (
	"fmt"
	"sort"
	"time"

	"github.com/anishathalye/porcupine"
	"github.com/pion/rtp"

	"verifsim/core"
)

// C07 — Sequencer is a linearizable 16-bit counter with exact rollover count.

func init() {
	register(&Check{
		ID: "C07", Level: "exploration", Configs: []string{"direct", "packetizers", "direct", "direct", "packetizers", "direct", "direct", "long"},
		Run: runC07, PrePass: prepassC07, NeedsSched: true,
		QuickRuns:   120_000,
		ThoroughSec: 600,
		Rule: "one run = 2-6 simulated threads calling NextSequenceNumber/RollOverCount on one real Sequencer (configs: direct ops; packetizers " +
			"sharing the sequencer through the rtp.Sequencer interface; long 4-thread runs across several wraps), preemption possible before every " +
			"statement of package rtp (instrumented at check time), every scheduling choice drawn from the tape; fingerprint = hash of the sequence of " +
			"(next thread, site) at context switches; non-trivial = at least one preemption happened inside an operation",
		Real: []string{"rtp.NewFixedSequencer", "rtp.NewRandomSequencer", "rtp.Sequencer.NextSequenceNumber", "rtp.Sequencer.RollOverCount",
			"rtp.NewPacketizer", "rtp.Packetizer.Packetize", "rtp.Packetizer.GeneratePadding (instrumented copies of /repo's working tree)"},
		Stub: []string{"thread scheduler", "sync.Mutex / sync.RWMutex (simulated, blocking = not runnable)", "vector-clock happens-before tracker",
			"random source (VerifSetRandom seam)", "payloader (fragment-count stub)", "porcupine linearizability checker + closed-form counter oracle"},
		Assumptions: []string{
			"interleavings are at statement granularity under sequential consistency; a torn x++ is visible only through the happens-before check",
			"the happens-before check tracks plain accesses to fields through the method receiver; anything routed through sync/atomic counts as synchronised",
			"porcupine v1.3.0 is trusted for histories <= 60 operations; the closed-form oracle covers all histories",
		},
		ProbeNames: []string{"wrap-inside-run", "rollover-read-concurrent-with-wrap", "porcupine-checked", "warm-up-past-first-wrap"},
	})
}

type seqOp struct {
	th       int
	kind     int // 0 Next, 1 RollOverCount
	inv, ret uint64
	out      uint64
	ok       bool
}

// seqProxy records invoke/return stamps around the real sequencer (the rtp.Sequencer
// interface is the seam for the packetizer workload).
type seqProxy struct {
	real rtp.Sequencer
	c    *core.Ctx
	sim  *schedSim
	ops  *[]seqOp
}

func (p *seqProxy) NextSequenceNumber() uint16 {
	th := p.sim.cur
	op := seqOp{th: th.id, kind: 0}
	op.inv = p.c.Ev("inv-next", uint64(th.id))
	v := p.real.NextSequenceNumber()
	op.out = uint64(v)
	op.ret = p.c.Ev("ret-next", uint64(th.id), uint64(v))
	op.ok = true
	*p.ops = append(*p.ops, op)
	return v
}

func (p *seqProxy) RollOverCount() uint64 {
	th := p.sim.cur
	op := seqOp{th: th.id, kind: 1}
	op.inv = p.c.Ev("inv-roc", uint64(th.id))
	v := p.real.RollOverCount()
	op.out = v
	op.ret = p.c.Ev("ret-roc", uint64(th.id), v)
	op.ok = true
	*p.ops = append(*p.ops, op)
	return v
}

type countPayloader struct{ n int }

func (p *countPayloader) Payload(mtu uint16, payload []byte) [][]byte {
	out := make([][]byte, p.n)
	for i := range out {
		out[i] = []byte{byte(i)}
	}
	return out
}

func runC07(c *core.Ctx) {
	t := c.T
	restore := rtp.VerifSetRandom(tapeRand{t})
	defer restore()
	long := c.Config == "long"
	nth := 2 + t.Intn(5)
	crowd := t.Chance(1, 6) // many callers at once: windows that need 6 or more threads inside them
	if crowd {
		nth = 6 + t.Intn(7)
	}
	den := uint64([]int{4, 2, 16, 1, 64}[t.Intn(5)])
	if long {
		nth = 4
		den = uint64([]int{256, 1024, 64}[t.Intn(3)])
	}
	sim := newSchedSim(c, den)
	if crowd && t.Chance(1, 2) {
		sim.lockstep = 1 + t.Intn(4)
	}
	if c.Config == "direct" && t.Chance(1, 12) {
		// constructors: every thread builds its OWN random sequencers (one per stream, as an SFU does when tracks are
		// added concurrently); whatever the constructor shares between calls, each first value must be below 2^15
		firsts := make([][]uint16, nth)
		for i := 0; i < nth; i++ {
			i := i
			k := 1 + t.Intn(4)
			sim.spawn(func(th *simThread) {
				for j := 0; j < k; j++ {
					sim.yield(-1)
					th.inOp = true
					c.Guard("rtp.NewRandomSequencer", func() {
						firsts[i] = append(firsts[i], rtp.NewRandomSequencer().NextSequenceNumber())
					})
					th.inOp = false
				}
			})
		}
		c.Logf("config=%s constructors: %d threads", c.Config, nth)
		sim.run()
		if sim.livelock {
			return
		}
		if sim.deadlock {
			c.Violate("deadlock", "C07/deadlock", "no runnable thread while some are blocked (constructors)")
			return
		}
		if sim.preemptOps > 0 {
			c.Fingerprint(sim.fp, 0xC0)
		}
		c.Probe("concurrent-constructors")
		for i := range firsts {
			for _, v := range firsts[i] {
				if v >= 1<<15 {
					c.Violate("start", "C07/start/random-not-below-2^15", "a random sequencer built while other threads were building theirs starts at %d, not below 2^15", v)
					return
				}
			}
		}
		return
	}
	// start value
	random := !long && t.Chance(1, 5)
	var start uint16
	var sq rtp.Sequencer
	if random {
		if c.Guard("rtp.NewRandomSequencer", func() { sq = rtp.NewRandomSequencer() }) {
			return
		}
	} else {
		switch t.Weighted(2, 2, 1, 1, 1, 1, 2) {
		case 0:
			start = uint16(65535 - t.Intn(6))
			if crowd {
				start = uint16(65535 - t.Intn(16))
			}
		case 1:
			start = uint16(t.Intn(3))
		case 2:
			start = 32767
		case 3:
			start = 32768
		case 4:
			start = 65534
		case 5:
			start = uint16(65535 - t.Intn(64))
		case 6:
			start = uint16(t.Draw(1 << 16))
		}
		if c.Guard("rtp.NewFixedSequencer", func() { sq = rtp.NewFixedSequencer(start) }) {
			return
		}
	}
	// warm-up (one fixed-start run in eight): issue sequentially, checking every value, until the
	// concurrent phase starts a few issues before the 2nd or 3rd wrap — state that a sequencer only
	// has after it has been all the way round (recycled cycles, carried counts) is otherwise never met
	var baseRoc uint64
	if !random && !long && c.Config == "direct" && t.Chance(1, 8) {
		z1 := int(uint16(0 - start)) // index of the first zero-valued issue
		w := z1 + 65536*(1+t.Intn(2)) - t.Intn(40)
		bad := false
		c.Guard("rtp.Sequencer(sequential warm-up)", func() {
			for i := 0; i < w; i++ {
				v := sq.NextSequenceNumber()
				if v == 0 {
					baseRoc++
				}
				if v != start+uint16(i) {
					c.Violate("values", "C07/values/sequential", "issue %d of a single caller on NewFixedSequencer(%d) returned %d, expected %d", i, start, v, start+uint16(i))
					bad = true
					return
				}
			}
			if r := sq.RollOverCount(); r != baseRoc {
				c.Violate("rollover", "C07/rollover/sequential", "after %d sequential issues from %d RollOverCount is %d, expected %d", w, start, r, baseRoc)
				bad = true
			}
		})
		if bad || len(c.Viol) > 0 {
			return
		}
		start += uint16(w)
		c.Probe("warm-up-past-first-wrap")
		c.Logf("warm-up: %d sequential issues, next value %d, %d wraps so far", w, start, baseRoc)
	}
	var ops []seqOp
	proxy := &seqProxy{real: sq, c: c, sim: sim, ops: &ops}
	c.Logf("config=%s threads=%d preempt=1/%d random=%v start=%d", c.Config, nth, den, random, start)
	var pktMismatch bool
	for i := 0; i < nth; i++ {
		nops := 1 + t.Intn(12)
		if crowd {
			nops = 1 + t.Intn(3)
		}
		if long {
			nops = 300 + t.Intn(900)
			if c.Tier == "thorough" && t.Chance(1, 8) {
				nops = 40_000 + t.Intn(20_000) // 160k-240k issues: three wraps
			}
		}
		kinds := make([]int, nops)
		for j := range kinds {
			if t.Chance(1, 4) {
				kinds[j] = 1
			}
			if long && kinds[j] == 1 && !t.Chance(1, 16) {
				kinds[j] = 0
			}
		}
		var pk rtp.Packetizer
		var pay *countPayloader
		if c.Config == "packetizers" {
			pay = &countPayloader{}
			pk = rtp.NewPacketizer(1200, 96, uint32(i), pay, proxy, 90000)
		}
		args := make([]int, nops)
		for j := range args {
			args[j] = 1 + t.Intn(4)
		}
		sim.spawn(func(th *simThread) {
			for j, k := range kinds {
				sim.yield(-1)
				th.inOp = true
				switch {
				case pk != nil && k == 0:
					pay.n = args[j]
					var pkts []*rtp.Packet
					base := len(ops)
					c.Guard("rtp.Packetizer.Packetize", func() { pkts = pk.Packetize([]byte{1}, 1) })
					c.Logf("T%d Packetize -> %d packets", th.id, len(pkts))
					mine := 0
					for _, o := range ops[base:] {
						if o.th == th.id && o.kind == 0 {
							if mine < len(pkts) && uint64(pkts[mine].SequenceNumber) != o.out {
								pktMismatch = true
							}
							mine++
						}
					}
					if mine != len(pkts) {
						pktMismatch = true
					}
				case pk != nil && k == 1:
					c.Guard("rtp.Packetizer.GeneratePadding", func() { pk.GeneratePadding(uint32(args[j] - 1)) })
					c.Logf("T%d GeneratePadding(%d)", th.id, args[j]-1)
				case k == 0:
					var v uint16
					c.Guard("rtp.Sequencer.NextSequenceNumber", func() { v = proxy.NextSequenceNumber() })
					c.Logf("T%d NextSequenceNumber -> %d", th.id, v)
				default:
					var v uint64
					c.Guard("rtp.Sequencer.RollOverCount", func() { v = proxy.RollOverCount() })
					c.Logf("T%d RollOverCount -> %d", th.id, v)
				}
				th.inOp = false
			}
		})
	}
	sim.run()
	if sim.livelock {
		return
	}
	if sim.deadlock {
		c.Violate("deadlock", "C07/deadlock", "no runnable thread while some are blocked on the sequencer's lock")
		return
	}
	if pktMismatch {
		c.Violate("packetizer", "C07/packetizer/sequence-numbers-not-those-issued", "a packetizer's packets do not carry, in order, the sequence numbers the sequencer returned to it")
	}
	if sim.preemptOps > 0 {
		c.Fingerprint(sim.fp)
	}
	if len(c.Viol) > 0 {
		for _, v := range c.Viol {
			if v.Oracle == "panic" {
				return // values are meaningless after a panic inside an operation
			}
		}
	}
	checkSeqHistory(c, ops, random, start, long, baseRoc)
}

// checkSeqHistory applies the closed-form counter oracle to every history and porcupine to
// short ones; a disagreement between the two is a harness error.
func checkSeqHistory(c *core.Ctx, ops []seqOp, random bool, start uint16, long bool, baseRoc uint64) {
	var nexts, rocs []seqOp
	for _, o := range ops {
		if !o.ok {
			continue
		}
		if o.kind == 0 {
			nexts = append(nexts, o)
		} else {
			rocs = append(rocs, o)
		}
	}
	n := len(nexts)
	closedOK := true
	randomStartKnown := false
	fail := func(oracle, sig, format string, args ...interface{}) {
		closedOK = false
		c.Violate(oracle, sig, format, args...)
	}
	if n == 0 && len(rocs) == 0 {
		return
	}
	// start value: known for a fixed sequencer; inferred for a random one
	if random && n > 0 {
		if n >= 65536 {
			return
		}
		seen := map[uint16]bool{}
		for _, o := range nexts {
			seen[uint16(o.out)] = true
		}
		cands := 0
		for v := range seen {
			if !seen[v-1] {
				start = v
				cands++
			}
		}
		if cands != 1 {
			// not one contiguous run: the multiset check below reports it against the smallest value
			vals := make([]int, 0, len(seen))
			for v := range seen {
				vals = append(vals, int(v))
			}
			sort.Ints(vals)
			start = uint16(vals[0])
		}
		randomStartKnown = cands == 1
	}
	// 1. multiset: exactly {start, start+1, …} (mod 2^16), no gap, no duplicate
	cnt := make(map[uint16]int, n)
	for _, o := range nexts {
		cnt[uint16(o.out)]++
	}
	cvals := make([]int, 0, len(cnt))
	for v := range cnt {
		cvals = append(cvals, int(v))
	}
	sort.Ints(cvals) // never let map order reach a message or a signature
	for _, vi := range cvals {
		v, k := uint16(vi), cnt[uint16(vi)]
		d := int(uint16(v - start)) // offset of the first issue of v
		exp := 0
		if d < n {
			exp = (n - d + 65535) / 65536
		}
		if k != exp {
			kind := "duplicate"
			if k < exp {
				kind = "gap"
			} else if exp == 0 {
				kind = "out-of-range"
			}
			if !random && n > 0 && kind == "out-of-range" && cnt[start] == 0 {
				kind = "wrong-start"
			}
			fail("values", "C07/values/"+kind, "value %d issued %d time(s), expected %d (start %d, %d issues)", v, k, exp, start, n)
			break
		}
	}
	if !closedOK {
		if !long && len(ops) <= 60 {
			crossCheckPorcupine(c, ops, random, start, false, baseRoc)
		}
		return
	}
	if randomStartKnown && start >= 1<<15 {
		// a start-convention clause, separate from the counter semantics that porcupine cross-checks;
		// only meaningful once the issued values are known to be one contiguous run
		c.Violate("start", "C07/start/random-not-below-2^15", "random sequencer's first value is %d, not below 2^15", start)
	}
	if n > 0 && uint32(start)+uint32(n) > 65536 {
		c.Probe("wrap-inside-run")
	}
	// 2. extended values: the j-th issue (by invocation) of value v is start-offset + 65536*j
	byVal := map[uint16][]int{}
	order := make([]int, n)
	for i := range order {
		order[i] = i
	}
	sort.Slice(order, func(a, b int) bool { return nexts[order[a]].inv < nexts[order[b]].inv })
	ext := make([]int, n)
	for _, i := range order {
		v := uint16(nexts[i].out)
		j := len(byVal[v])
		byVal[v] = append(byVal[v], i)
		ext[i] = int(uint16(v-start)) + 65536*j
	}
	// real-time order: A returned before B was invoked => ext(A) < ext(B)
	byExt := make([]int, n)
	for i := range ext {
		if ext[i] >= n || ext[i] < 0 {
			fail("values", "C07/values/ext-out-of-range", "internal: ext %d of %d", ext[i], n)
			return
		}
		byExt[ext[i]] = i
	}
	minRetLater := ^uint64(0)
	for k := n - 1; k >= 0; k-- {
		o := nexts[byExt[k]]
		if minRetLater < o.inv {
			fail("order", "C07/order/issue-order-contradicts-real-time", "value with extended index %d was invoked (event %d) after a later value had already been returned (event %d)", k, o.inv, minRetLater)
			break
		}
		if o.ret < minRetLater {
			minRetLater = o.ret
		}
	}
	// wraps(k) = number of zero-valued issues with extended index <= k
	zeroIdx := []int{}
	for k := 0; k < n; k++ {
		if uint16(nexts[byExt[k]].out) == 0 {
			zeroIdx = append(zeroIdx, k)
		}
	}
	wraps := func(k int) uint64 { return uint64(sort.SearchInts(zeroIdx, k+1)) }
	// 3. RollOverCount
	retSorted := make([]int, n) // indices of nexts sorted by ret, with prefix max ext
	copy(retSorted, order)
	sort.Slice(retSorted, func(a, b int) bool { return nexts[retSorted[a]].ret < nexts[retSorted[b]].ret })
	prefMax := make([]int, n)
	for i, idx := range retSorted {
		prefMax[i] = ext[idx]
		if i > 0 && prefMax[i-1] > prefMax[i] {
			prefMax[i] = prefMax[i-1]
		}
	}
	sufMin := make([]int, n) // order is sorted by inv
	for i := n - 1; i >= 0; i-- {
		sufMin[i] = ext[order[i]]
		if i < n-1 && sufMin[i+1] < sufMin[i] {
			sufMin[i] = sufMin[i+1]
		}
	}
	sort.Slice(rocs, func(a, b int) bool { return rocs[a].inv < rocs[b].inv })
	var maxRetRoc []seqOp
	for _, r := range rocs {
		lo, hi := uint64(0), uint64(len(zeroIdx))
		// Next ops that returned before r was invoked
		i := sort.Search(n, func(i int) bool { return nexts[retSorted[i]].ret >= r.inv })
		if i > 0 {
			lo = wraps(prefMax[i-1])
		}
		// Next ops invoked after r returned
		j := sort.Search(n, func(j int) bool { return nexts[order[j]].inv > r.ret })
		if j < n {
			k := sufMin[j]
			hi = wraps(k)
			if uint16(nexts[byExt[k]].out) == 0 && hi > 0 {
				hi-- // that zero issue itself comes after r
			}
		}
		// zero issues still in flight bound hi: the c-th zero issue must have been invoked before r returned
		invBefore := uint64(0)
		for _, k := range zeroIdx {
			if nexts[byExt[k]].inv >= r.ret {
				break
			}
			invBefore++
		}
		if invBefore < hi {
			hi = invBefore
		}
		if lo < hi {
			c.Probe("rollover-read-concurrent-with-wrap")
		}
		lo, hi = lo+baseRoc, hi+baseRoc
		if r.out < lo || r.out > hi {
			fail("rollover", "C07/rollover/count-outside-linearizable-range", "RollOverCount returned %d; the zero-valued issues completed before / possibly before it allow only [%d,%d]", r.out, lo, hi)
			break
		}
		for _, e := range maxRetRoc {
			if e.ret < r.inv && e.out > r.out {
				fail("rollover", "C07/rollover/count-decreased", "RollOverCount returned %d after an earlier call had returned %d", r.out, e.out)
			}
		}
		if len(maxRetRoc) < 64 {
			maxRetRoc = append(maxRetRoc, r)
		}
	}
	if !long && len(ops) <= 60 {
		crossCheckPorcupine(c, ops, random, start, closedOK, baseRoc)
	}
}

type seqState struct {
	last uint16
	roll uint64
}

func crossCheckPorcupine(c *core.Ctx, ops []seqOp, random bool, start uint16, closedOK bool, baseRoc uint64) {
	model := porcupine.Model{
		Init: func() interface{} { return seqState{last: start - 1, roll: baseRoc} },
		Step: func(state, input, output interface{}) (bool, interface{}) {
			st := state.(seqState)
			if input.(int) == 0 {
				st.last++
				if st.last == 0 {
					st.roll++
				}
				return uint64(st.last) == output.(uint64), st
			}
			return st.roll == output.(uint64), st
		},
		Equal: func(a, b interface{}) bool { return a.(seqState) == b.(seqState) },
	}
	var pops []porcupine.Operation
	for _, o := range ops {
		if !o.ok {
			continue
		}
		pops = append(pops, porcupine.Operation{ClientId: o.th, Input: o.kind, Call: int64(o.inv), Output: o.out, Return: int64(o.ret)})
	}
	res := porcupine.CheckOperationsTimeout(model, pops, 20*time.Second)
	c.Probe("porcupine-checked")
	switch res {
	case porcupine.Unknown:
		c.Probe("porcupine-unknown")
	case porcupine.Ok:
		if !closedOK {
			panic(fmt.Sprintf("oracle disagreement: closed-form oracle rejects a history porcupine accepts (start %d, %d ops)", start, len(ops)))
		}
	case porcupine.Illegal:
		if closedOK {
			// The closed-form oracle is meant to be equivalent; porcupine is the authority on short histories.
			c.Violate("linearizability", "C07/linearizability/porcupine-illegal", "history of %d operations is not linearizable against the 16-bit counter model (start %d)", len(ops), start)
		}
	}
}

// prepassC07 walks all 65 536 fixed start values single-threaded: first value, the value
// after it, and the rollover count across the wrap.
func prepassC07(c *core.Ctx) int {
	cases := 0
	for s := 0; s < 65536; s++ {
		var sq rtp.Sequencer
		var a, b uint16
		var r0, r1, r2 uint64
		c.Guard("rtp.Sequencer(start walk)", func() {
			sq = rtp.NewFixedSequencer(uint16(s))
			r0 = sq.RollOverCount()
			a = sq.NextSequenceNumber()
			r1 = sq.RollOverCount()
			b = sq.NextSequenceNumber()
			r2 = sq.RollOverCount()
		})
		cases++
		e1, e2 := uint64(0), uint64(0)
		if uint16(s) == 0 {
			e1 = 1
		}
		e2 = e1
		if uint16(s+1) == 0 {
			e2++
		}
		if a != uint16(s) || b != uint16(s+1) {
			c.Violate("start", "C07/start/fixed-first-values", "NewFixedSequencer(%d) issued %d then %d", s, a, b)
			break
		}
		if r0 != 0 || r1 != e1 || r2 != e2 {
			c.Violate("rollover", "C07/rollover/start-walk", "NewFixedSequencer(%d): RollOverCount %d,%d,%d, expected 0,%d,%d", s, r0, r1, r2, e1, e2)
			break
		}
	}
	return cases
}
