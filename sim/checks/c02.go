package checks

import (
	"bytes"
	"fmt"
	"unsafe"

	"github.com/pion/rtp"

	"verifsim/core"
)

// C02 — RTP parsing is memory-safe and bounded on arbitrary input; reuse == fresh.
//
// World: 1-3 senders emit VALID wire images (model encoder over generated well-formed
// packets), the wire damages them (hostile: bit flips, truncation, injected garbage;
// lossy: dup/reorder), and ONE long-lived rtp.Packet plus ONE long-lived rtp.Header
// decode every datagram in arrival order out of recycled receive buffers; next to
// each, a fresh Packet/Header decodes a private copy.

func init() {
	register(&Check{
		ID:      "C02",
		Tenants: func(c *core.Ctx, i int) tenant { return tenantPacket(c, "unmarshal") }, Level: "exploration", Configs: []string{"hostile", "hostile", "lossy"},
		Run: runC02, PrePass: prepassC02,
		QuickRuns:   400_000,
		ThoroughSec: 600,
		Rule: "one run = 1-3 streams of 1-20 valid RTP wire images (0-15 CSRC, one-byte/two-byte/legacy extension blocks, RTP padding, empty payloads) sent through a wire that flips bits, " +
			"truncates, injects garbage (random, boundary alphabet, short strings, mutated genuine packets), duplicates and reorders, decoded in arrival order by ONE reused rtp.Packet and ONE " +
			"reused rtp.Header out of 1-3 recycled receive buffers, each compared with a fresh receiver on a private copy; fingerprint = hash(per-delivery (fault class, header-ok, packet-ok, " +
			"CC, X, P, profile class) truncated to 10 deliveries); non-trivial = at least one delivery was damaged/garbage/duplicate or followed a failed decode on the same receiver",
		Real: []string{"rtp.Packet.Unmarshal", "rtp.Header.Unmarshal", "rtp.Header.GetExtensionIDs", "rtp.Header.GetExtension"},
		Stub: []string{"senders (model RFC 3550/8285 encoder over generated packets)", "wire (corrupt, truncate, inject, dup, reorder, delay)", "receive buffer pool", "fresh-receiver oracle", "independent RFC 8285 walk"},
		Assumptions: []string{
			"ExtensionProfile is compared only when the X bit is set, PayloadOffset/Raw never (the wire carries no such field)",
			"state after a failed decode is not compared, but the failed decode stays in the receiver's history",
		},
		ProbeNames: []string{"success-after-failure", "cc-shrinks", "cc-grows", "ext-present-then-absent", "padding-present-then-absent", "padding-only-packet", "padding-exceeds", "ext-flush-with-block"},
	})
}

type c02rx struct {
	pkt      rtp.Packet
	hdr      rtp.Header
	pool     *rxPool
	lastCC   int
	lastX    bool
	lastPad  bool
	lastFail bool
	fp       []uint64
}

func runC02(c *core.Ctx) {
	t := c.T
	loop := core.NewLoop(c, 4000)
	cfg := drawWireCfg(t, c.Config)
	rx := &c02rx{pool: newRxPool(c, 1+t.Intn(3)), lastCC: -1}
	w := newWire(c, loop, cfg, func(d datagram) { c02decode(c, rx, d.b, d) })
	nstreams := 1 + t.Intn(3)
	for s := 0; s < nstreams; s++ {
		s := s
		npk := 1 + t.Intn(20)
		var send func(k int)
		send = func(k int) {
			if k >= npk {
				return
			}
			spec := genPacketSpec(t, 200)
			if t.Chance(1, 300) {
				// a jumbo packet whose RFC 3550 extension needs more than 14 bits of its 16-bit word count
				spec.profile, spec.legacyProfile = profLegacy, 0x0123
				spec.exts = []extEl{{0, t.Bytes(4 * (0x4000 + t.Intn(8)))}}
				c.Probe("jumbo-extension")
			}
			if (spec.profile == profOneByte || spec.profile == profTwoByte) && t.Chance(1, 250) {
				// hundreds of tiny elements in one block (ids repeat necessarily): counts beyond 8 bits
				n := []int{255, 256, 257, 300, 512, 700}[t.Intn(6)]
				maxID := 14
				if spec.profile == profTwoByte {
					maxID = 255
				}
				for len(spec.exts) < n {
					l := t.Intn(3)
					if spec.profile == profOneByte {
						l = 1 + t.Intn(2)
					}
					spec.exts = append(spec.exts, extEl{uint8(1 + t.Intn(maxID)), t.Bytes(l)})
				}
				c.Probe("hundreds-of-extension-elements")
			}
			img := spec.encode()
			w.Send(datagram{stream: s, frame: k, b: img, meta: spec})
			loop.After(int64(100_000+t.Intn(20_000_000)), func() { send(k + 1) })
		}
		loop.After(int64(t.Intn(1_000_000)), func() { send(0) })
	}
	c.Logf("streams=%d wire=%+v rxbufs=%d", nstreams, cfg, len(rx.pool.bufs))
	loop.Run()
	if len(rx.fp) > 0 {
		if len(rx.fp) > 10 {
			rx.fp = rx.fp[:10]
		}
		c.Fingerprint(rx.fp...)
	}
}

func within(outer, inner []byte) (int, bool) {
	if len(inner) == 0 || len(outer) == 0 {
		return 0, false
	}
	o := uintptr(unsafe.Pointer(&outer[0]))
	i := uintptr(unsafe.Pointer(&inner[0]))
	if i < o || i+uintptr(len(inner)) > o+uintptr(len(outer)) {
		return 0, false
	}
	return int(i - o), true
}

// c02decode runs every oracle of C02 on one input; it is shared with the pre-pass.
func c02decode(c *core.Ctx, rx *c02rx, raw []byte, d datagram) {
	buf := rx.pool.put(raw)
	var private []byte
	if raw != nil {
		private = append([]byte{}, raw...)
	}
	// (a) + (b) Header
	var n, n2 int
	var herr, herr2, perr, perr2 error
	var fh rtp.Header
	var fp rtp.Packet
	if c.Guard("rtp.Header.Unmarshal", func() { n, herr = rx.hdr.Unmarshal(buf) }) {
		return
	}
	if c.Guard("rtp.Header.Unmarshal(fresh)", func() { n2, herr2 = fh.Unmarshal(private) }) {
		return
	}
	if c.Guard("rtp.Packet.Unmarshal", func() { perr = rx.pkt.Unmarshal(buf) }) {
		return
	}
	if c.Guard("rtp.Packet.Unmarshal(fresh)", func() { perr2 = fp.Unmarshal(private) }) {
		return
	}
	c.Ev("decode", uint64(len(raw)), b2u(herr == nil), b2u(perr == nil), uint64(n))
	c.Logf("rx: %d bytes%s -> header n=%d err=%v; packet err=%v", len(raw), map[bool]string{true: " (garbage)", false: ""}[d.garbage], n, herr, perr)
	cls := uint64(0)
	switch {
	case d.garbage:
		cls = 1
	case d.damaged:
		cls = 2
	case d.dup:
		cls = 3
	}
	if cls != 0 || rx.lastFail {
		cc, x, p := uint64(0), uint64(0), uint64(0)
		if len(raw) > 0 {
			cc, x, p = uint64(raw[0]&0x0F), uint64(raw[0]>>4&1), uint64(raw[0]>>5&1)
		}
		rx.fp = append(rx.fp, cls<<12|b2u(herr == nil)<<11|b2u(perr == nil)<<10|cc<<4|x<<1|p)
	}
	if (herr == nil) != (herr2 == nil) || (herr == nil && n != n2) {
		c.Violate("reuse", "C02/reuse-differs/header/result", "reused Header: n=%d err=%v; fresh Header: n=%d err=%v (input %.16x… %d bytes)", n, herr, n2, herr2, raw, len(raw))
	}
	if (perr == nil) != (perr2 == nil) {
		c.Violate("reuse", "C02/reuse-differs/packet/result", "reused Packet err=%v, fresh Packet err=%v (input %.16x… %d bytes)", perr, perr2, raw, len(raw))
	}
	if herr == nil {
		if n <= 0 || n > len(buf) {
			c.Violate("bounds", "C02/bounds/header-length-outside-input", "Header.Unmarshal reported n=%d for %d input bytes", n, len(buf))
			return
		}
		c02exts(c, &rx.hdr, buf, n, "header")
		if herr2 == nil {
			if k, a, b := c02diffHeader(c, &rx.hdr, &fh); k != "" {
				c.Violate("reuse", "C02/reuse-differs/header/"+k, "after decoding the same bytes a reused Header has %s=%s, a fresh one %s (input %.16x… %d bytes)", k, a, b, raw, len(raw))
			}
		}
	}
	if perr == nil {
		if herr != nil {
			c.Violate("bounds", "C02/packet-accepts-what-header-rejects", "Packet.Unmarshal succeeded where Header.Unmarshal failed: %v", herr)
			return
		}
		p := &rx.pkt
		if n+len(p.Payload)+int(p.PaddingSize) != len(buf) {
			c.Violate("bounds", "C02/bounds/length-accounting", "header %d + payload %d + padding %d != input %d", n, len(p.Payload), p.PaddingSize, len(buf))
			return
		}
		if len(p.Payload) > 0 {
			if off, ok := within(buf, p.Payload); ok {
				if off != n {
					c.Violate("bounds", "C02/bounds/payload-offset", "payload starts at %d, header length is %d", off, n)
					return
				}
			} else if !bytes.Equal(p.Payload, buf[n:n+len(p.Payload)]) {
				c.Violate("bounds", "C02/bounds/payload-bytes", "payload is not input[%d:%d]", n, n+len(p.Payload))
				return
			}
		}
		if p.Padding && int(p.PaddingSize) == len(buf)-n && len(buf) > n {
			c.Probe("padding-only-packet")
		}
		c02exts(c, &p.Header, buf, n, "packet")
		if perr2 == nil {
			k, a, b := c02diffHeader(c, &p.Header, &fp.Header)
			if k == "" && !bytes.Equal(p.Payload, fp.Payload) {
				k, a, b = "Payload", fmt.Sprintf("%d bytes", len(p.Payload)), fmt.Sprintf("%d bytes", len(fp.Payload))
			}
			if k == "" && p.PaddingSize != fp.PaddingSize {
				k, a, b = "PaddingSize", fmt.Sprint(p.PaddingSize), fmt.Sprint(fp.PaddingSize)
			}
			if k != "" {
				c.Violate("reuse", "C02/reuse-differs/packet/"+k, "after decoding the same bytes a reused Packet has %s=%s, a fresh one %s (input %.16x… %d bytes)", k, a, b, raw, len(raw))
			}
		}
	} else if herr == nil && len(raw) > 0 && raw[0]&0x20 != 0 {
		c.Probe("padding-exceeds")
	}
	// an undamaged genuine image must decode to exactly what the sender put in: "the payload and every
	// extension value are exactly the corresponding input bytes" for an input whose layout is known
	if spec, ok := d.meta.(*pktSpec); ok && !d.damaged && !d.garbage {
		flush := spec.profile != profNone && len(spec.payload) == 0 && spec.padSize == 0
		if perr != nil {
			c.Violate("genuine", "C02/genuine/rejected", "a well-formed image of the model encoder was rejected: %v (%s)", perr, spec)
		} else if k, a, b := c20diff(c, &rx.pkt, spec); k != "" {
			c.Violate("genuine", "C02/genuine/"+k, "a well-formed image decodes with %s=%s, it was built with %s (%s)", k, a, b, spec)
		} else if n != spec.layout().extEnd {
			c.Violate("genuine", "C02/genuine/header-length", "header length %d, the image's header is %d bytes (%s)", n, spec.layout().extEnd, spec)
		}
		_ = flush
	}
	// probes over the receiver's history
	if herr == nil {
		if rx.lastFail {
			c.Probe("success-after-failure")
		}
		cc := len(rx.hdr.CSRC)
		if rx.lastCC >= 0 && cc < rx.lastCC {
			c.Probe("cc-shrinks")
		}
		if rx.lastCC >= 0 && cc > rx.lastCC {
			c.Probe("cc-grows")
		}
		if rx.lastX && !rx.hdr.Extension {
			c.Probe("ext-present-then-absent")
		}
		if rx.lastPad && !rx.hdr.Padding {
			c.Probe("padding-present-then-absent")
		}
		rx.lastCC, rx.lastX, rx.lastPad = cc, rx.hdr.Extension, rx.hdr.Padding
	}
	rx.lastFail = herr != nil || perr != nil
}

// c02exts: GetExtensionIDs / GetExtension do not panic, and every reported value lies
// inside input[12+4*CC+4 : n] and equals the bytes there.
func c02exts(c *core.Ctx, h *rtp.Header, buf []byte, n int, who string) {
	var ids []uint8
	if c.Guard("rtp.Header.GetExtensionIDs", func() { ids = h.GetExtensionIDs() }) {
		return
	}
	extStart := 12 + 4*len(h.CSRC) + 4
	seen := map[uint8]bool{}
	for _, id := range ids {
		if seen[id] {
			continue // GetExtension returns the first element with this id
		}
		seen[id] = true
		var v []byte
		if c.Guard("rtp.Header.GetExtension", func() { v = h.GetExtension(id) }) {
			return
		}
		if len(v) == 0 {
			continue
		}
		off, ok := within(buf, v)
		if ok {
			if off < extStart || off+len(v) > n {
				c.Violate("bounds", "C02/bounds/extension-value-outside-block", "%s: extension id %d value is input[%d:%d], outside the extension block input[%d:%d]", who, id, off, off+len(v), extStart, n)
				return
			}
			if off+len(v) == n {
				c.Probe("ext-flush-with-block")
			}
			continue
		}
		// an implementation that copies: compare with the model's own RFC 8285 walk when well-formed
		if p, okp := parseRTP(buf); okp {
			for _, e := range p.exts {
				if e.id == id {
					if !bytes.Equal(e.val, v) {
						c.Violate("bounds", "C02/bounds/extension-value-bytes", "%s: extension id %d value differs from the input bytes", who, id)
					}
					break
				}
			}
		}
	}
}

func c02diffHeader(c *core.Ctx, a, b *rtp.Header) (string, string, string) {
	type f struct {
		k    string
		x, y interface{}
	}
	fields := []f{{"Version", a.Version, b.Version}, {"Padding", a.Padding, b.Padding}, {"Extension", a.Extension, b.Extension}, {"Marker", a.Marker, b.Marker},
		{"PayloadType", a.PayloadType, b.PayloadType}, {"SequenceNumber", a.SequenceNumber, b.SequenceNumber}, {"Timestamp", a.Timestamp, b.Timestamp}, {"SSRC", a.SSRC, b.SSRC},
		{"CSRC", fmt.Sprint(append([]uint32{}, a.CSRC...)), fmt.Sprint(append([]uint32{}, b.CSRC...))}}
	if a.Extension {
		fields = append(fields, f{"ExtensionProfile", a.ExtensionProfile, b.ExtensionProfile})
	}
	for _, x := range fields {
		if x.x != x.y {
			return x.k, fmt.Sprint(x.x), fmt.Sprint(x.y)
		}
	}
	var ia, ib []uint8
	c.Guard("rtp.Header.GetExtensionIDs", func() { ia = a.GetExtensionIDs(); ib = b.GetExtensionIDs() })
	if !bytes.Equal(ia, ib) {
		return "ExtensionIDs", fmt.Sprint(ia), fmt.Sprint(ib)
	}
	for _, id := range ia {
		var va, vb []byte
		c.Guard("rtp.Header.GetExtension", func() { va = a.GetExtension(id); vb = b.GetExtension(id) })
		if !bytes.Equal(va, vb) {
			return "ExtensionValue", fmt.Sprintf("id %d: %x", id, va), fmt.Sprintf("%x", vb)
		}
	}
	return "", "", ""
}

// prepassC02 decodes, into one reused receiver, every string of <= 2 bytes, and for a set
// of valid images every single-byte substitution from the boundary alphabet in the first
// 20 bytes and every truncation — a deterministic pre-pass over a small fault alphabet.
func prepassC02(c *core.Ctx) int {
	rx := &c02rx{pool: newRxPool(c, 1), lastCC: -1}
	cases := 0
	feed := func(b []byte) {
		cases++
		c02decode(c, rx, b, datagram{garbage: true})
	}
	feed(nil)
	feed([]byte{})
	for i := 0; i < 256; i++ {
		feed([]byte{byte(i)})
	}
	for i := 0; i < 1<<16; i++ {
		feed([]byte{byte(i >> 8), byte(i)})
	}
	t := c.T
	for k := 0; k < 400 && len(c.Viol) < 8; k++ {
		img := genPacketSpec(t, 40).encode()
		for cut := 0; cut <= len(img); cut++ {
			feed(img[:cut])
		}
		lim := minI(20, len(img))
		for pos := 0; pos < lim; pos++ {
			for _, v := range boundaryAlphabet {
				m := append([]byte{}, img...)
				m[pos] = v
				feed(m)
			}
		}
	}
	return cases
}
