package checks

import (
	"bytes"
	"fmt"

	"github.com/pion/rtp/codecs"

	"verifsim/core"
)

// streamWorld is the fault-free configuration of the codec-level world: a sender node
// emits the payloads of frame k at simulated instants, a FIFO wire with drawn delays
// carries them, and the receiver is handed slices of recycled receive buffers.
func streamWorld(c *core.Ctx, nframes int, produce func(k int) [][]byte, deliver func(d datagram, buf []byte)) {
	t := c.T
	loop := core.NewLoop(c, 450000)
	pool := newRxPool(c, 1+t.Intn(3))
	w := newWire(c, loop, drawWireCfg(t, "clean"), func(d datagram) { deliver(d, pool.put(d.b)) })
	var prev, prevSnap [][]byte
	var send func(k int)
	send = func(k int) {
		if k >= nframes {
			return
		}
		ps := produce(k)
		// what the previous call returned belongs to the caller (retransmission buffers keep it):
		// a later call on the same payloader must not change it
		for i := range prev {
			if !bytes.Equal(prev[i], prevSnap[i]) {
				c.Violate("ownership", c.Property+"/returned-payloads-changed-by-later-call", "payload %d returned by call %d changed when call %d was made on the same payloader", i, k-1, k)
				break
			}
		}
		prev, prevSnap = ps, make([][]byte, len(ps))
		for i, p := range ps {
			prevSnap[i] = append([]byte{}, p...)
		}
		for i, p := range ps {
			w.Send(datagram{frame: k, idx: i, marker: i == len(ps)-1, b: p})
		}
		loop.After(int64(1_000_000+t.Intn(30_000_000)), func() { send(k + 1) })
	}
	loop.After(0, func() { send(0) })
	loop.Run()
}

// ---------------------------------------------------------------- C11 (VP8)

func init() {
	register(&Check{
		ID:      "C11",
		Tenants: func(c *core.Ctx, i int) tenant { return tenantCodec(c, kVP8, kVP8) }, Level: "exploration", Configs: c11Configs(),
		Run:         runC11,
		QuickRuns:   240_000,
		ThoroughSec: 480,
		Rule: "config clean: a real VP8Payloader (+-PictureID) streams 1-60 frames (1 byte..5*MTU) at an MTU above the descriptor size to a long-lived real VP8Packet over a FIFO wire; " +
			"config wrap: 33 000 one-byte frames through one payloader (picture id 127->128 and 32767->0); config foreign: an independent RFC 7741 descriptor writer over all " +
			"X/I/M/L/T/K combinations with drawn field values + payload, and every truncation inside the descriptor; fingerprint = hash(config, picid mode, mtu class, #frames class, " +
			"descriptor flag set / id-form transitions seen); non-trivial = a frame was fragmented, the picture id changed form or wrapped, or (foreign) the descriptor has the X bit",
		Real: []string{"codecs.VP8Payloader.Payload", "codecs.VP8Packet.Unmarshal", "codecs.VP8Packet.IsPartitionHead"},
		Stub: []string{"frame source", "FIFO wire + receive buffer pool", "independent RFC 7741 descriptor writer", "truncating link of the foreign peer"},
		Assumptions: []string{
			"picture id 0 is sent without the I bit by this code; the decoded value is then 0, which is the running id, so it is not flagged",
			"reserved descriptor bits are written as 0 by the foreign peer",
		},
		ProbeNames: []string{"picid-127-to-128", "picid-wrap-32767-to-0", "fragmented-frame", "foreign-all-flags", "foreign-truncated-rejected"},
	})
}

// c11Configs: the 33 000-frame wrap stream is expensive, so it is one run in 64.
func c11Configs() []string {
	var cfg []string
	for i := 0; i < 21; i++ {
		cfg = append(cfg, "clean", "foreign", "clean")
	}
	return append(cfg, "wrap")
}

func runC11(c *core.Ctx) {
	t := c.T
	if c.Config == "foreign" {
		runC11Foreign(c)
		return
	}
	picID := t.Chance(2, 3)
	wrap := c.Config == "wrap"
	if wrap {
		picID = true
	}
	pay := &codecs.VP8Payloader{EnablePictureID: picID}
	rx := &codecs.VP8Packet{}
	rx.SetZeroAllocation(t.Chance(1, 4)) // an option like any other: decoding must not depend on it
	mtu := 5 + []int{7, 0, 1, 3, 30, 1195}[t.Intn(6)] + t.Intn(3)
	nframes := 1 + t.Intn(60)
	if t.Chance(1, 8) {
		nframes = 120 + t.Intn(200) // far enough for the 7-bit -> 15-bit switch to happen on fragmented frames
	}
	jumbo := !wrap && t.Chance(1, 1500) // one frame that needs more than 65535 packets (or more than 64 KiB at a large MTU)
	if jumbo {
		nframes = 1 + t.Intn(3)
		if t.Bool() {
			mtu = 2 + t.Intn(2)
			picID = false
			pay.EnablePictureID = false
		} else {
			mtu = 1200
		}
		c.Probe("jumbo-frame")
	}
	if wrap {
		nframes = 33000
	}
	var frames [][]byte
	var cur []byte // reassembly of the frame in progress
	curFrame, running := -1, 0
	fragmented, formChange := false, false
	c.Logf("config=%s picid=%v mtu=%d frames=%d", c.Config, picID, mtu, nframes)
	world := streamWorld
	if wrap || jumbo {
		// the id-continuity stream needs no wire: deliver each payload at once (FIFO, zero delay)
		world = func(c *core.Ctx, n int, produce func(k int) [][]byte, deliver func(d datagram, buf []byte)) {
			for k := 0; k < n && len(c.Viol) == 0; k++ {
				ps := produce(k)
				for i, p := range ps {
					c.Ev("deliver", uint64(k), uint64(i))
					deliver(datagram{frame: k, idx: i, marker: i == len(ps)-1, b: p}, p)
				}
			}
		}
	}
	var sizeFP []uint64
	emitted := 0             // frames that actually went out: the running picture id counts those
	frameID := map[int]int{} // frame index -> expected running id (lookup only, never iterated)
	frameHasID := map[int]bool{}
	varying := !wrap && !jumbo && t.Chance(1, 4) // histories that mix usable and unusable MTUs and flip EnablePictureID
	baseMTU := mtu
	toggleDen := uint64(6)
	if varying && t.Chance(1, 6) {
		// the running id is brought close to a form change (127 -> 128) or to the wrap (32767 -> 0) by earlier
		// frames, so that toggling the option and unusable calls happen AROUND those points
		n := []int{120, 126, 32760, 32766, 32700}[t.Intn(5)] + t.Intn(3)
		one := []byte{7}
		if c.Guard("codecs.VP8Payloader.Payload(warm-up)", func() {
			for i := 0; i < n; i++ {
				pay.Payload(8, one)
			}
		}) {
			return
		}
		emitted = n
		toggleDen = 3
		c.Probe("picture-id-warm-up")
		c.Logf("warm-up: %d earlier frames", n)
	}
	world(c, nframes, func(k int) [][]byte {
		if varying {
			mtu = baseMTU
			switch t.Weighted(6, 1, 1) {
			case 1:
				mtu = t.Intn(5) // at or below the descriptor size for some id forms: nothing can be sent
			case 2:
				mtu = baseMTU + t.Intn(9)
			}
			if t.Chance(1, toggleDen) {
				picID = !picID
				pay.EnablePictureID = picID
				c.Probe("picture-id-option-toggled")
			}
		}
		var f []byte
		if wrap {
			f = []byte{byte(k)}
		} else if jumbo && k == 0 {
			f = t.Bytes(65536 + t.Intn(4000))
		} else {
			f = t.Bytes(nalSize(t, mtu, 1, []int{1, 3, 4}[t.Intn(3)])) // multiples of the fragment size for each descriptor size
		}
		if len(sizeFP) < 6 && mtu > 1 {
			sizeFP = append(sizeFP, uint64((len(f)+mtu-2)/(mtu-1)))
		}
		frames = append(frames, f)
		var ps [][]byte
		c.Guard("codecs.VP8Payloader.Payload", func() { ps = pay.Payload(uint16(mtu), spare(t, f)) })
		if len(ps) > 1 {
			fragmented = true
			c.Probe("fragmented-frame")
		}
		for _, p := range ps {
			if len(p) > mtu {
				c.Violate("mtu", "C11/payload-exceeds-mtu", "payload of %d bytes at MTU %d", len(p), mtu)
			}
		}
		hdr := 1
		if picID && emitted > 0 {
			hdr = 3
			if emitted&0x7FFF >= 128 {
				hdr = 4
			}
		}
		if len(ps) == 0 && mtu > hdr {
			c.Violate("lossless", "C11/no-payload-for-frame", "frame %d (%d bytes) produced no payload at MTU %d", k, len(f), mtu)
		}
		if len(ps) == 0 {
			c.Probe("unusable-mtu-call")
		}
		frameID[k], frameHasID[k] = emitted&0x7FFF, picID
		if len(ps) > 0 {
			emitted++
		}
		return ps
	}, func(d datagram, buf []byte) {
		if len(c.Viol) > 0 {
			return
		}
		var out []byte
		var err error
		var head bool
		// IsPartitionHead is asked before the receiver has decoded this payload (it still holds the previous one) and after
		var head0 bool
		if c.Guard("codecs.VP8Packet.Unmarshal", func() { head0 = rx.IsPartitionHead(buf); out, err = rx.Unmarshal(buf); head = rx.IsPartitionHead(buf) }) {
			return
		}
		if head0 != head {
			c.Violate("shape", "C11/shape/partition-head-depends-on-receiver", "frame %d packet %d: IsPartitionHead answers %v before and %v after the receiver decoded the same payload", d.frame, d.idx, head0, head)
			return
		}
		if err != nil {
			c.Violate("decode", "C11/decode/error-on-genuine-payload", "VP8Packet rejected a payload of the real payloader: %v", err)
			return
		}
		if d.frame != curFrame {
			curFrame, cur = d.frame, nil
		}
		first := d.idx == 0
		if (rx.S == 1) != first || head != first {
			c.Violate("shape", "C11/shape/s-bit", "frame %d packet %d: S=%d IsPartitionHead=%v (first=%v)", d.frame, d.idx, rx.S, head, first)
			return
		}
		if rx.PID != 0 {
			c.Violate("shape", "C11/shape/partition-index", "PID=%d", rx.PID)
			return
		}
		if frameHasID[d.frame] {
			running = frameID[d.frame]
			if int(rx.PictureID) != running {
				c.Violate("picture-id", "C11/picture-id/value", "frame %d packet %d carries picture id %d, running id is %d", d.frame, d.idx, rx.PictureID, running)
				return
			}
			if rx.I == 1 {
				m := len(d.b) > 2 && d.b[2]&0x80 != 0
				if m != (running >= 128) {
					c.Violate("picture-id", "C11/picture-id/form", "picture id %d sent in the %s form", running, map[bool]string{true: "15-bit", false: "7-bit"}[m])
					return
				}
			} else if running != 0 {
				c.Violate("picture-id", "C11/picture-id/absent", "frame %d carries no picture id (running id %d)", d.frame, running)
				return
			}
			if running == 128 && first {
				c.Probe("picid-127-to-128")
				formChange = true
			}
			if d.frame == 32768 && first && !varying {
				c.Probe("picid-wrap-32767-to-0")
				formChange = true
			}
		}
		cur = append(cur, out...)
		if d.marker {
			if !bytes.Equal(cur, frames[d.frame]) {
				c.Violate("lossless", "C11/lossless/frame-differs", "frame %d: concatenated VP8Packet payloads are %d bytes, frame is %d (mtu %d)", d.frame, len(cur), len(frames[d.frame]), mtu)
			}
		}
	})
	if fragmented || formChange {
		c.Fingerprint(append([]uint64{1, b2u(picID), uint64(mtu / 4), uint64(nframes / 8), b2u(fragmented), b2u(formChange)}, sizeFP...)...)
	}
}

func runC11Foreign(c *core.Ctx) {
	t := c.T
	n := 1 + t.Intn(12)
	zeroAlloc := t.Chance(1, 4)
	long := &codecs.VP8Packet{} // the statement does not say "fresh": a receiver with a history must decode the same values
	long.SetZeroAllocation(zeroAlloc)
	for k := 0; k < n; k++ {
		d, desc := genVP8Desc(t)
		payload := t.Bytes(c11PayloadLen(t, 20))
		pkt := append(append([]byte{}, desc...), payload...)
		rx := &codecs.VP8Packet{}
		rx.SetZeroAllocation(zeroAlloc)
		if k%2 == 1 {
			rx = long
		}
		var out []byte
		var err error
		if c.Guard("codecs.VP8Packet.Unmarshal", func() { out, err = rx.Unmarshal(pkt) }) {
			return
		}
		c.Ev("foreign", core.HashBytes(pkt))
		c.Logf("foreign descriptor %x + %d payload bytes -> err=%v", desc, len(payload), err)
		if d.x == 1 {
			c.Fingerprint(2, uint64(d.x)<<5|uint64(d.i)<<4|uint64(d.l)<<3|uint64(d.t)<<2|uint64(d.k)<<1|b2u(d.m), uint64(len(payload)))
			if d.i == 1 && d.l == 1 && d.t == 1 && d.k == 1 {
				c.Probe("foreign-all-flags")
			}
		}
		if err != nil {
			c.Violate("foreign", "C11/foreign/rejected-well-formed", "VP8Packet rejected a well-formed RFC 7741 payload (descriptor %x): %v", desc, err)
			return
		}
		got := []uint{uint(rx.X), uint(rx.N), uint(rx.S), uint(rx.PID), uint(rx.I), uint(rx.L), uint(rx.T), uint(rx.K), uint(rx.PictureID), uint(rx.TL0PICIDX), uint(rx.TID), uint(rx.Y), uint(rx.KEYIDX)}
		want := []uint{uint(d.x), uint(d.n), uint(d.s), uint(d.pid), uint(d.i), uint(d.l), uint(d.t), uint(d.k), uint(d.picID), uint(d.tl0), uint(d.tid), uint(d.y), uint(d.keyidx)}
		names := []string{"X", "N", "S", "PID", "I", "L", "T", "K", "PictureID", "TL0PICIDX", "TID", "Y", "KEYIDX"}
		for i := range got {
			if got[i] != want[i] {
				who := ""
				if rx == long {
					who = "/receiver-with-history"
				}
				c.Violate("foreign", "C11/foreign/field/"+names[i]+who, "descriptor %x: decoded %s=%d, encoded %d (receiver used before: %v)", desc, names[i], got[i], want[i], rx == long)
				return
			}
		}
		if rx != long {
			c.Guard("codecs.VP8Packet.Unmarshal", func() { _, _ = long.Unmarshal(pkt) }) // builds the history
		}
		if !bytes.Equal(out, payload) || !bytes.Equal(rx.Payload, payload) {
			c.Violate("foreign", "C11/foreign/payload", "descriptor %x: returned %d bytes, %d follow the descriptor", desc, len(out), len(payload))
			return
		}
		// the truncating link: every cut inside the descriptor must be rejected
		for cut := 0; cut < len(desc); cut++ {
			rx2 := &codecs.VP8Packet{}
			rx2.SetZeroAllocation(zeroAlloc)
			var e2 error
			trunc := append([]byte{}, pkt[:cut]...)
			if c.Guard("codecs.VP8Packet.Unmarshal", func() { _, e2 = rx2.Unmarshal(trunc) }) {
				return
			}
			c.Fault("truncate")
			if cut%3 == 0 {
				c.Guard("codecs.VP8Packet.Unmarshal", func() { _, _ = long.Unmarshal(trunc) }) // failed decodes are part of the history too
			}
			if e2 == nil {
				c.Violate("foreign", "C11/foreign/truncated-accepted", "descriptor %x cut to %d of %d bytes was accepted", desc, cut, len(desc))
				return
			}
			c.Probe("foreign-truncated-rejected")
		}
	}
}

// ---------------------------------------------------------------- C12 (VP9)

func init() {
	register(&Check{
		ID:      "C12",
		Tenants: func(c *core.Ctx, i int) tenant { return tenantCodec(c, kVP9, kVP9Flex) }, Level: "exploration", Configs: []string{"clean", "foreign"},
		Run:         runC12,
		QuickRuns:   1_000_000,
		ThoroughSec: 480,
		Rule: "config clean: a real VP9Payloader (flexible / non-flexible, InitialPictureIDFn from the tape biased to 0x7FFF-k) streams 1-40 frames whose uncompressed header is written by an " +
			"independent bit writer (profiles 0-3, key/non-key, all 8 colour spaces, 16-bit sizes over the full range) to a long-lived real VP9Packet over a FIFO wire; config foreign: " +
			"an independent payload-descriptor writer (I/M, L+TL0PICIDX, F&P with 1-3 P_DIFF, V with N_S 0-7, Y, G, N_G pictures with R P_DIFFs; SID 0-4) and every truncation inside the " +
			"descriptor, decoded by a fresh receiver; fingerprint = hash(config, mode, profile, key, colour space, mtu class, #packets class) resp. hash(descriptor flag byte, N_S, N_G, #pdiff); " +
			"non-trivial = the frame was fragmented or was a key frame with a scalability structure or the picture id wrapped; foreign: any optional descriptor part present",
		Real: []string{"codecs.VP9Payloader.Payload", "codecs.VP9Packet.Unmarshal", "codecs.VP9Packet.IsPartitionHead", "vp9.Header.Unmarshal (through the payloader)"},
		Stub: []string{"VP9 uncompressed-header bit writer", "FIFO wire + receive buffer pool", "independent VP9 RTP descriptor writer", "truncating link of the foreign peer"},
		Assumptions: []string{
			"frames with show_existing_frame=1 (1-2 byte frames) are held to losslessness, B/E and picture-id continuity only; P and the scalability structure are not asserted for them",
			"width/height are compared modulo 2^16 (the scalability structure has 16-bit fields; 65536 cannot be carried)",
			"SID is drawn in 0-4: pion documents a deliberate limit of 5 spatial layers",
		},
		ProbeNames: []string{"picture-id-wrap", "key-frame-ss", "profile3", "rgb-colour-space", "width-65536", "foreign-ss-with-pg", "foreign-truncated-rejected"},
	})
}

func runC12(c *core.Ctx) {
	t := c.T
	if c.Config == "foreign" {
		runC12Foreign(c)
		return
	}
	flex := t.Bool()
	init := drawPicID(t)
	pay := &codecs.VP9Payloader{FlexibleMode: flex, InitialPictureIDFn: func() uint16 { return init }}
	rx := &codecs.VP9Packet{}
	rx.SetZeroAllocation(t.Chance(1, 4))
	minMTU := 12
	if flex {
		minMTU = 4
	}
	mtu := minMTU + []int{8, 0, 1, 3, 40, 1188}[t.Intn(6)] + t.Intn(4)
	nframes := 1 + t.Intn(40)
	var frames []vp9Frame
	var cur []byte
	curFrame := -1
	nontrivial := false
	c.Logf("flex=%v init=%d mtu=%d frames=%d", flex, init, mtu, nframes)
	var fpParts []uint64
	// FlexibleMode is a plain exported field: an application may flip it between frames (MTUs of toggling
	// runs are sufficient for both modes)
	toggling := mtu >= 12 && t.Chance(1, 5)
	varyMTU := t.Chance(1, 6)
	hugeCount := t.Chance(1, 1500) // one frame that needs more than 65535 packets at the smallest MTU
	if hugeCount {
		mtu, nframes, toggling, varyMTU = minMTU, 1, false, false
		c.Probe("frame-needing-more-than-65535-packets")
	}
	sendFlex := flex
	flexOf := map[int]bool{} // frame index -> mode at that call (lookup only)
	streamWorld(c, nframes, func(k int) [][]byte {
		if toggling && k > 0 && t.Chance(1, 3) {
			sendFlex = !sendFlex
			pay.FlexibleMode = sendFlex
			c.Probe("flexible-mode-toggled-on-live-payloader")
		}
		flexOf[k] = sendFlex
		if varyMTU && k > 0 {
			mtu = 12 + []int{8, 0, 1, 3, 40, 1188}[t.Intn(6)] + t.Intn(4) // the path MTU changed between frames
		}
		var f vp9Frame
		if k > 0 && frames[k-1].key && t.Chance(1, 3) {
			f = genVP9FrameLike(t, mtu, &frames[k-1]) // a sibling of the previous key frame: same header but for one field
			c.Probe("sibling-key-frame")
		} else {
			f = genVP9Frame(t, mtu)
		}
		if hugeCount {
			f = genVP9Frame(t, 1200)
			f.data = append(f.data, t.Bytes((65540+t.Intn(2000))*(mtu-3))...)
		}
		frames = append(frames, f)
		var ps [][]byte
		c.Guard("codecs.VP9Payloader.Payload", func() { ps = pay.Payload(uint16(mtu), spare(t, f.data)) })
		if len(ps) == 0 {
			c.Violate("lossless", "C12/no-payload-for-frame", "frame %d (%d bytes, profile %d key=%v) produced no payload at MTU %d flex=%v", k, len(f.data), f.profile, f.key, mtu, sendFlex)
		}
		for _, p := range ps {
			if len(p) > mtu {
				c.Violate("mtu", "C12/payload-exceeds-mtu", "payload of %d bytes at MTU %d", len(p), mtu)
			}
		}
		if f.profile == 3 {
			c.Probe("profile3")
		}
		if f.key && f.colorSpace == 7 {
			c.Probe("rgb-colour-space")
		}
		if f.key && (f.width == 65536 || f.height == 65536) {
			c.Probe("width-65536")
		}
		if len(ps) > 1 || (f.key && !sendFlex) || f.showExisting {
			nontrivial = true
		}
		if f.showExisting {
			c.Probe("show-existing-frame")
			// what P / V / the scalability structure of such a frame must be is not asserted (see the level note); that they
			// are decided by THIS frame's header and not by the frame the payloader saw before is: a payloader that has
			// seen nothing, started at the same picture id, must build the same descriptor
			if !sendFlex && len(ps) > 0 && len(ps[0]) >= 3 && ps[0][0]&0x80 != 0 && len(c.Viol) == 0 {
				pid := uint16(ps[0][1] & 0x7F)
				if ps[0][1]&0x80 != 0 {
					pid = pid<<8 | uint16(ps[0][2])
				}
				var ref [][]byte
				fresh := &codecs.VP9Payloader{FlexibleMode: false, InitialPictureIDFn: func() uint16 { return pid }}
				if !c.Guard("codecs.VP9Payloader.Payload(fresh)", func() { ref = fresh.Payload(uint16(mtu), append([]byte(nil), f.data...)) }) {
					same := len(ref) == len(ps)
					for i := 0; same && i < len(ps); i++ {
						same = bytes.Equal(ref[i], ps[i])
					}
					if !same {
						c.Violate("shape", "C12/show-existing/depends-on-previous-frame", "frame %d (show_existing_frame, %d bytes): the long-lived payloader and one that has seen no frame before (same picture id %d) build different payloads", k, len(f.data), pid)
					}
				}
			}
		}
		if len(fpParts) < 6 {
			fpParts = append(fpParts, uint64(f.profile)<<8|b2u(f.key)<<7|uint64(f.colorSpace)<<4|uint64(minI(len(ps), 3)))
		}
		c.Logf("frame %d: profile %d key=%v %dx%d cs=%d %d bytes -> %d payloads", k, f.profile, f.key, f.width, f.height, f.colorSpace, len(f.data), len(ps))
		return ps
	}, func(d datagram, buf []byte) {
		if len(c.Viol) > 0 {
			return
		}
		var out []byte
		var err error
		var head bool
		var head0 bool
		if c.Guard("codecs.VP9Packet.Unmarshal", func() { head0 = rx.IsPartitionHead(buf); out, err = rx.Unmarshal(buf); head = rx.IsPartitionHead(buf) }) {
			return
		}
		if head0 != head {
			c.Violate("shape", "C12/shape/partition-head-depends-on-receiver", "frame %d packet %d: IsPartitionHead answers %v before and %v after the receiver decoded the same payload", d.frame, d.idx, head0, head)
			return
		}
		if err != nil {
			c.Violate("decode", "C12/decode/error-on-genuine-payload", "VP9Packet rejected a payload of the real payloader: %v", err)
			return
		}
		f := frames[d.frame]
		flex := flexOf[d.frame]
		if d.frame != curFrame {
			curFrame, cur = d.frame, nil
		}
		first, last := d.idx == 0, d.marker
		if rx.B != first || rx.E != last || head != first {
			c.Violate("shape", "C12/shape/b-e-bits", "frame %d packet %d: B=%v E=%v IsPartitionHead=%v (first=%v last=%v)", d.frame, d.idx, rx.B, rx.E, head, first, last)
			return
		}
		wantID := (int(init&0x7FFF) + d.frame) & 0x7FFF
		if !rx.I || int(rx.PictureID) != wantID {
			c.Violate("picture-id", "C12/picture-id/value", "frame %d packet %d: I=%v picture id %d, expected %d (initial %d)", d.frame, d.idx, rx.I, rx.PictureID, wantID, init&0x7FFF)
			return
		}
		if wantID == 0 && d.frame > 0 && first {
			c.Probe("picture-id-wrap")
			nontrivial = true
		}
		if len(d.b) > 1 && d.b[1]&0x80 == 0 {
			c.Violate("picture-id", "C12/picture-id/not-15-bit", "picture id sent in the 7-bit form")
			return
		}
		if rx.F != flex {
			c.Violate("shape", "C12/shape/f-bit", "F=%v in %s mode", rx.F, map[bool]string{true: "flexible", false: "non-flexible"}[flex])
			return
		}
		if !flex && !f.showExisting { // a show-existing frame is neither a key frame nor inter-predicted: only lossless / B / E / picture id apply
			if rx.P != !f.key {
				c.Violate("shape", "C12/shape/p-bit", "frame %d key=%v but P=%v", d.frame, f.key, rx.P)
				return
			}
			if f.key && first {
				c.Probe("key-frame-ss")
				if !rx.V || !rx.Y || len(rx.Width) < 1 || len(rx.Height) < 1 {
					c.Violate("ss", "C12/ss/missing-on-key-frame", "first packet of a non-flexible key frame: V=%v Y=%v widths=%d", rx.V, rx.Y, len(rx.Width))
					return
				}
				if rx.Width[0] != uint16(f.width) || rx.Height[0] != uint16(f.height) {
					c.Violate("ss", fmt.Sprintf("C12/ss/resolution/profile%d", f.profile), "key frame profile %d colour space %d codes %dx%d, scalability structure says %dx%d", f.profile, f.colorSpace, f.width, f.height, rx.Width[0], rx.Height[0])
					return
				}
			} else if rx.V {
				c.Violate("ss", "C12/ss/on-non-first-or-non-key", "scalability structure on packet %d of a frame with key=%v", d.idx, f.key)
				return
			}
		}
		cur = append(cur, out...)
		if last && !bytes.Equal(cur, f.data) {
			c.Violate("lossless", "C12/lossless/frame-differs", "frame %d: concatenated payloads are %d bytes, frame is %d (mtu %d flex=%v)", d.frame, len(cur), len(f.data), mtu, flex)
		}
	})
	if nontrivial {
		c.Fingerprint(append([]uint64{1, b2u(flex), uint64(mtu / 4)}, fpParts...)...)
	}
}

func runC12Foreign(c *core.Ctx) {
	t := c.T
	n := 1 + t.Intn(10)
	zeroAlloc := t.Chance(1, 4)
	long := &codecs.VP9Packet{} // a receiver with a history must decode the same values as a fresh one
	long.SetZeroAllocation(zeroAlloc)
	for k := 0; k < n; k++ {
		d, desc := genVP9Desc(t)
		payload := t.Bytes(c11PayloadLen(t, 16))
		pkt := append(append([]byte{}, desc...), payload...)
		rx := &codecs.VP9Packet{}
		rx.SetZeroAllocation(zeroAlloc)
		if k%2 == 1 {
			rx = long
		}
		var out []byte
		var err error
		if c.Guard("codecs.VP9Packet.Unmarshal", func() { out, err = rx.Unmarshal(pkt) }) {
			return
		}
		c.Ev("foreign", core.HashBytes(pkt))
		c.Logf("foreign descriptor %x + %d payload bytes -> err=%v", desc, len(payload), err)
		if d.i || d.l || d.v || (d.f && d.p) {
			c.Fingerprint(2, uint64(desc[0]), uint64(d.ns), uint64(d.ng), uint64(len(d.pdiff)), b2u(d.m), b2u(d.y), b2u(d.g))
		}
		if d.v && d.g && d.ng > 0 {
			c.Probe("foreign-ss-with-pg")
		}
		if err != nil {
			c.Violate("foreign", "C12/foreign/rejected-well-formed", "VP9Packet rejected a well-formed payload (descriptor %x): %v", desc, err)
			return
		}
		want := []kv{{"I", fmt.Sprint(d.i)}, {"P", fmt.Sprint(d.p)}, {"L", fmt.Sprint(d.l)}, {"F", fmt.Sprint(d.f)}, {"B", fmt.Sprint(d.b)}, {"E", fmt.Sprint(d.e)}, {"V", fmt.Sprint(d.v)}, {"Z", fmt.Sprint(d.z)},
			{"PictureID", fmt.Sprint(d.pid)}, {"TID", fmt.Sprint(d.tid)}, {"U", fmt.Sprint(d.u)}, {"SID", fmt.Sprint(d.sid)}, {"D", fmt.Sprint(d.d)},
			{"PDiff", sl8(d.pdiff)}, {"TL0PICIDX", fmt.Sprint(d.tl0)}, {"NS", fmt.Sprint(d.ns)}, {"Y", fmt.Sprint(d.y)}, {"G", fmt.Sprint(d.g)}, {"NG", fmt.Sprint(d.ng)},
			{"Width", fmt.Sprint(append([]uint16{}, d.w...))}, {"Height", fmt.Sprint(append([]uint16{}, d.h...))},
			{"PGTID", sl8(d.pgtid)}, {"PGU", fmt.Sprint(append([]bool{}, d.pgu...))}, {"PGPDiff", sl88(d.pgpdiff)}, {"Payload", fmt.Sprintf("%x", payload)}}
		if k, a, b := firstDiff(describe(rx), want); k != "" {
			who := ""
			if rx == long {
				who = "/receiver-with-history"
			}
			c.Violate("foreign", "C12/foreign/field/"+k+who, "descriptor %x: decoded %s=%s, encoded %s (receiver used before: %v)", desc, k, a, b, rx == long)
			return
		}
		if rx != long {
			c.Guard("codecs.VP9Packet.Unmarshal", func() { _, _ = long.Unmarshal(pkt) })
		}
		if !bytes.Equal(out, payload) {
			c.Violate("foreign", "C12/foreign/payload", "descriptor %x: returned %d bytes, %d follow the descriptor", desc, len(out), len(payload))
			return
		}
		for cut := 0; cut < len(desc); cut++ {
			rx2 := &codecs.VP9Packet{}
			rx2.SetZeroAllocation(zeroAlloc)
			var e2 error
			trunc := append([]byte{}, pkt[:cut]...)
			if c.Guard("codecs.VP9Packet.Unmarshal", func() { _, e2 = rx2.Unmarshal(trunc) }) {
				return
			}
			c.Fault("truncate")
			if cut%3 == 0 {
				c.Guard("codecs.VP9Packet.Unmarshal", func() { _, _ = long.Unmarshal(trunc) }) // failed decodes are part of the history too
			}
			if e2 == nil {
				c.Violate("foreign", "C12/foreign/truncated-accepted", "descriptor %x cut to %d of %d bytes was accepted", desc, cut, len(desc))
				return
			}
			c.Probe("foreign-truncated-rejected")
		}
	}
}

// c11PayloadLen: mostly short payloads behind a foreign descriptor, sometimes lengths around multiples of 256
// (what is left after a descriptor field is then a value whose low 8 bits are 0 or 1).
func c11PayloadLen(t *core.Tape, small int) int {
	if t.Chance(1, 8) {
		return 256*(1+t.Intn(4)) - 6 + t.Intn(12)
	}
	return t.Intn(small)
}
