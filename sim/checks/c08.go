package checks

import (
	"bytes"
	"fmt"

	"github.com/pion/rtp"

	"verifsim/core"
)

// C08 — payloaders respect the MTU, never panic, neither modify nor retain the input.
//
// World: a media source owns ONE reusable frame buffer. For each frame it writes the
// frame there, calls Payload(mtu, buf[:n]) and, at a drawn later event (right after the
// call, some calls later, or never), overwrites the buffer with the next frame or poison.
// A shadow payloader of the same type and options receives pristine private copies.

var c08Kinds = []int{kH264, kH265, kH265DONL, kVP8, kVP9, kVP9Flex, kAV1Dep, kOpus, kG711, kG722}

func init() {
	register(&Check{
		ID: "C08",
		Tenants: func(c *core.Ctx, i int) tenant {
			return tenantPayloader(c, []int{kH264, kH265, kH265DONL, kVP8, kVP9, kVP9Flex, kAV1Dep, kG711, kG722, kOpus}[c.T.Intn(10)])
		}, Level: "exploration", Configs: []string{"clean"},
		Run:         runC08,
		QuickRuns:   300_000,
		ThoroughSec: 600,
		Rule: "one run = one payloader instance (G711, G722, Opus, H264 +-StapA, H265 +-DONL +-SkipAggregation, VP8 +-PictureID, VP9 flexible/non-flexible, AV1) " +
			"called 1-30 times with a per-call MTU drawn over 0..65535 (biased to 0-12, header thresholds +-1, 1200, 65535) on structured, arbitrary and mutated " +
			"media written into ONE reusable source buffer that is overwritten (next frame) or poisoned at drawn later events; a shadow instance gets private copies; " +
			"fingerprint = hash(payloader, options, per-call (mtu class, input class, #fragments class, recycle-before-next-call)) truncated to 10 calls; " +
			"non-trivial = the source buffer was recycled/poisoned while fragments or payloader state from it were still outstanding",
		Real: []string{"codecs.G711Payloader", "codecs.G722Payloader", "codecs.OpusPayloader", "codecs.H264Payloader", "codecs.H265Payloader", "codecs.VP8Payloader", "codecs.VP9Payloader", "codecs.AV1Payloader"},
		Stub: []string{"media source with one reusable frame buffer", "recycle/poison scheduler", "shadow-instance oracle", "fragment snapshots"},
		Assumptions: []string{
			"'non-empty' is read as len(fragment) > 0",
			"the shadow payloader runs the same real code on private copies, so any divergence can only come from memory the primary does not own",
		},
		ProbeNames: []string{"param-set-held-across-recycle", "fragment-eq-mtu", "mtu-below-header", "only-start-codes", "fragments-outstanding-at-recycle"},
	})
}

func payloaderName(kind int) string {
	switch kind {
	case kH264, kH264AVC:
		return "H264Payloader"
	case kH265, kH265DONL:
		return "H265Payloader"
	case kVP8:
		return "VP8Payloader"
	case kVP9, kVP9Flex:
		return "VP9Payloader"
	case kAV1Dep, kAV1Pkt:
		return "AV1Payloader"
	case kOpus:
		return "OpusPayloader"
	case kG711:
		return "G711Payloader"
	case kG722:
		return "G722Payloader"
	}
	return "?"
}

func drawMTU(t *core.Tape, o payloaderOpts) int {
	switch t.Weighted(4, 3, 3, 2, 1, 1, 2) {
	case 0:
		return o.minMTU() + 4 + t.Intn(40)
	case 1:
		return t.Intn(13)
	case 2:
		return o.minMTU() + t.Range(-2, 2)
	case 3:
		return 1200
	case 4:
		return 65535
	case 5:
		return int(t.Draw(65536))
	}
	return 60 + t.Intn(200)
}

type outstanding struct {
	frag []byte // as returned by the primary (may alias, that is the point)
	snap []byte // private snapshot at return
	call int
}

func runC08(c *core.Ctx) {
	t := c.T
	kind := c08Kinds[t.Intn(len(c08Kinds))]
	opts := drawPayloaderOpts(t, kind)
	primary, shadow := opts.build(), opts.build()
	name := payloaderName(kind)
	api := "codecs." + name + ".Payload"
	apiShadow := api + "(shadow)"
	gen := &mediaGen{kind: kind}
	loop := core.NewLoop(c, 400)
	src := make([]byte, 0, 1<<18) // the ONE reusable source buffer
	hiWater := 0
	var outs []outstanding
	var fp []uint64
	ncalls := 1 + t.Intn(30)
	recycled := false
	c.Logf("payloader=%s calls=%d", opts, ncalls)
	checkOutstanding := func(why string) {
		for _, o := range outs {
			if !bytes.Equal(o.frag, o.snap) {
				c.Violate("ownership", fmt.Sprintf("C08/fragment-changed-after-recycle/%s", name),
					"a fragment returned by call %d changed when the caller's input buffer was %s: it aliases the input", o.call, why)
				break
			}
		}
	}
	// VP8: the picture id starts at 0 and cannot be set, so the 7-bit -> 15-bit descriptor switch at
	// 128 (and the wrap at 32767) is only reachable through earlier calls: warm both instances up.
	if kind == kVP8 && opts.vp8PicID && t.Chance(1, 2) {
		n := []int{126, 127, 128, 200, 32766, 32767}[t.Weighted(2, 3, 3, 2, 1, 1)]
		one := []byte{1}
		c.Guard(api, func() {
			for i := 0; i < n; i++ {
				primary.Payload(8, one)
				shadow.Payload(8, one)
			}
		})
		c.Probe("vp8-picture-id-warmup")
		c.Logf("warm-up: %d earlier frames", n)
	}
	var step func(k int)
	step = func(k int) {
		if k >= ncalls {
			return
		}
		if k > 0 && t.Chance(1, 12) && opts.toggle(t) {
			opts.apply(primary) // an option flipped on the live payloader (and on its shadow)
			opts.apply(shadow)
			c.Probe("option-toggled-on-live-payloader")
		}
		mtu := drawMTU(t, opts)
		if mtu < 0 {
			mtu = 0
		}
		genMTU := mtu
		if genMTU < opts.minMTU()+2 {
			genMTU = opts.minMTU() + 2
		}
		if genMTU > 2000 {
			genMTU = 2000
		}
		// input class
		var media []byte
		icls := t.Weighted(6, 2, 2, 1)
		if t.Chance(1, 2500) {
			icls = 4 // jumbo: more than 64 KiB of input, at a tiny or a large MTU
		}
		if mtu > 2000 && t.Chance(1, 4) {
			genMTU = mtu // structured input sized for a large MTU: big units aggregate, boundaries of 16-bit sizes
			c.Probe("input-sized-for-large-mtu")
		}
		switch icls {
		case 0:
			media = gen.next(t, genMTU)
			if (kind == kAV1Dep || kind == kAV1Pkt) && mtu >= 16 && t.Chance(1, 5) {
				measure := func(b []byte) int {
					var out [][]byte
					if c.Guard(api+"(measure)", func() { out = opts.build().Payload(uint16(mtu), b) }) || len(out) == 0 {
						return -1
					}
					return len(out[len(out)-1])
				}
				if _, s2, ok := genAV1Aimed(t, mtu, measure); ok {
					media = s2
					c.Probe("aimed-free-space")
				}
			}
		case 1:
			media = t.Bytes(t.Intn(3 * genMTU))
			for i := 0; i+4 < len(media) && t.Chance(1, 2); i += 1 + t.Intn(40) {
				copy(media[i:], []byte{0, 0, 1})
			}
		case 2:
			media = gen.next(t, genMTU)
			for i := 0; i < 1+t.Intn(4) && len(media) > 0; i++ {
				media[t.Intn(len(media))] ^= 1 << uint(t.Intn(8))
			}
			if t.Bool() && len(media) > 0 {
				media = media[:t.Intn(len(media))]
			}
		case 4:
			media = gen.next(t, genMTU)
			media = append(media, nalBody(t, 66000+t.Intn(4000))...)
			if t.Bool() {
				mtu = opts.minMTU() + t.Intn(3)
			} else {
				mtu = []int{1200, 40000, 65535}[t.Intn(3)]
			}
			c.Probe("jumbo-input")
		case 3:
			switch t.Intn(4) {
			case 0:
				media = []byte{0, 0, 1, 0, 0, 0, 1, 0, 0, 1}
				c.Probe("only-start-codes")
			case 1:
				media = []byte{}
			case 2:
				media = []byte{0x8C} // VP9 show_existing_frame-ish / AV1 forbidden bit
			case 3:
				media = []byte{0, 0, 1}
			}
		}
		// write the frame into the reusable buffer: everything handed out earlier that aliases it changes now
		if cap(src) < len(media) {
			// a real source would have a buffer large enough; growing here would hide aliasing, so keep a big one
			src = make([]byte, 0, 2*len(media)+64)
			outs = nil
		}
		if len(outs) > 0 {
			c.Probe("fragments-outstanding-at-recycle")
		}
		src = src[:len(media)]
		copy(src, media)
		if len(media) > hiWater {
			hiWater = len(media)
		}
		if k > 0 {
			c.Fault("recycle")
			recycled = true
			checkOutstanding("overwritten with the next frame")
		}
		private := append([]byte{}, media...)
		before := append([]byte{}, src...)
		var frags, frags2 [][]byte
		if c.Guard(api, func() { frags = primary.Payload(uint16(mtu), src) }) {
			return
		}
		if c.Guard(apiShadow, func() { frags2 = shadow.Payload(uint16(mtu), private) }) {
			return
		}
		c.Ev("payload", uint64(mtu), uint64(len(media)), uint64(len(frags)))
		c.Logf("call %d: %s(mtu=%d, %d bytes, class %d) -> %d fragments", k, api, mtu, len(media), icls, len(frags))
		if mtu < opts.minMTU() {
			c.Probe("mtu-below-header")
		}
		if !bytes.Equal(src, before) {
			c.Violate("input", fmt.Sprintf("C08/input-modified/%s", name), "Payload modified the caller's input buffer (mtu %d, %d bytes)", mtu, len(media))
		}
		for i, f := range frags {
			if kind != kOpus && len(f) > mtu {
				c.Violate("mtu", fmt.Sprintf("C08/fragment-exceeds-mtu/%s", name), "fragment %d of %d is %d bytes, MTU %d (input %d bytes, %s)", i, len(frags), len(f), mtu, len(media), opts)
				break
			}
			if len(f) == mtu {
				c.Probe("fragment-eq-mtu")
			}
			if len(f) == 0 && len(media) > 0 {
				c.Violate("empty", fmt.Sprintf("C08/empty-fragment/%s", name), "fragment %d of %d is empty for a %d-byte input at MTU %d", i, len(frags), len(media), mtu)
				break
			}
		}
		// shadow: byte-identical fragment lists on every call of the history
		same := len(frags) == len(frags2)
		for i := 0; same && i < len(frags); i++ {
			same = bytes.Equal(frags[i], frags2[i])
		}
		if !same {
			what := "fragments"
			if kind == kH264 && recycled {
				what = "held-parameter-set"
				for i := 0; i < len(frags) && i < len(frags2); i++ {
					if !bytes.Equal(frags[i], frags2[i]) && (len(frags[i]) == 0 || frags[i][0]&0x1F != 24) {
						what = "fragments"
					}
				}
				if len(frags) != len(frags2) {
					what = "held-parameter-set/count"
				}
			}
			c.Violate("shadow", fmt.Sprintf("C08/shadow-divergence/%s/%s", name, what),
				"call %d (mtu %d): payloader fed from the recycled source buffer returned %d fragments, its shadow fed private copies of the same inputs %d, contents differ: state kept from an earlier call aliases the caller's buffer", k, mtu, len(frags), len(frags2))
		}
		for _, f := range frags {
			if len(outs) < 64 {
				outs = append(outs, outstanding{frag: f, snap: append([]byte{}, f...), call: k})
			}
		}
		if kind == kH264 && !opts.disableStapA && gen.h264State != 0 {
			c.Probe("param-set-held-across-recycle")
		}
		ncls := uint64(len(frags))
		if ncls > 3 {
			ncls = 3
		}
		mcls := uint64(0)
		switch {
		case mtu < opts.minMTU():
			mcls = 1
		case mtu <= opts.minMTU()+2:
			mcls = 2
		case mtu >= 1200:
			mcls = 3
		}
		// when is the buffer recycled next: poison right after the call, or only at the next call, or consumed first
		when := t.Weighted(3, 2, 2)
		fp = append(fp, mcls<<8|uint64(icls)<<4|ncls<<2|uint64(when))
		switch when {
		case 1:
			loop.After(1, func() {
				full := src[:hiWater]
				for i := range full {
					full[i] = 0xEE
				}
				c.Fault("poison")
				recycled = true
				checkOutstanding("poisoned")
			})
		case 2:
			outs = nil // the consumer took (sent) the fragments before the buffer is reused
		}
		loop.After(int64(1000+t.Intn(30_000_000)), func() { step(k + 1) })
	}
	loop.After(0, func() { step(0) })
	loop.Run()
	if recycled && len(fp) > 0 {
		if len(fp) > 10 {
			fp = fp[:10]
		}
		c.Fingerprint(append([]uint64{uint64(kind), b2u(opts.disableStapA), b2u(opts.addDONL), b2u(opts.skipAgg), b2u(opts.vp8PicID)}, fp...)...)
	}
}

var _ rtp.Payloader
