package checks

import (
	"bytes"
	"fmt"

	"github.com/pion/rtp"

	"verifsim/core"
)

// C15 — stateful depacketizers resynchronise at the next complete frame after loss.
//
// Fault enumeration: for a preceding frame A whose train has n <= 10 packets ALL 2^n
// delivery subsets are executed (order preserved), each followed by an intact frame B;
// longer trains get drawn subsets biased to the interesting losses. One long-lived
// receiver serves the whole chain of trials of a run.

func init() {
	register(&Check{
		ID:      "C15",
		Tenants: func(c *core.Ctx, i int) tenant { return tenantDepack(c, []int{kH264, kAV1Dep}[c.T.Intn(2)]) }, Level: "fault_enumeration", Configs: []string{"loss-only"},
		Run:         runC15,
		QuickRuns:   40_000,
		ThoroughSec: 600,
		Rule: "one run = one codec (H264 Annex-B, H264 AVC, AV1Depacketizer), one MTU, a chain of 1-4 trials on ONE long-lived real depacketizer; a trial = frame A " +
			"(real payloader output, sized to fragment) delivered under every loss subset of its packets when the train has <= 10 packets (else 64 drawn subsets biased to " +
			"lose-the-end-marker / lose-the-first / lose-a-middle-run), optionally preceded by 0-5 garbage payloads, then frame B intact, compared packet by packet with a " +
			"fresh depacketizer fed only B; fingerprint = (codec, train length, delivery mask, garbage-before); non-trivial = at least one packet of A was lost",
		Real: []string{"codecs.H264Payloader.Payload", "codecs.AV1Payloader.Payload", "codecs.H264Packet.Unmarshal", "codecs.AV1Depacketizer.Unmarshal"},
		Stub: []string{"media source", "loss-only wire (subset enumeration, order preserved)", "garbage injector", "fresh-depacketizer oracle"},
		Assumptions: []string{
			"frame B is the complete output of one Payload call, so it begins with its own start-of-fragment marker",
			"nothing is asserted about the output for frame A (only that it does not panic)",
		},
		ProbeNames: []string{"exhaustive-trains", "sampled-trains", "end-fragment-lost", "garbage-before"},
	})
}

func runC15(c *core.Ctx) {
	t := c.T
	kind := []int{kH264, kAV1Dep, kH264AVC}[t.Intn(3)]
	opts := drawPayloaderOpts(t, kind)
	mtu := opts.minMTU() + []int{6, 3, 12, 30, 80, 0, 1}[t.Intn(7)] + t.Intn(4)
	h264SharedPrefix = nil
	if (kind == kH264 || kind == kH264AVC) && t.Chance(1, 3) {
		// consecutive slices share their first bytes: fragments of frame B can equal fragments of frame A
		h264SharedPrefix = append([]byte{byte(t.Intn(4))<<5 | byte([]int{1, 5}[t.Intn(2)])}, nalBody(t, 1+t.Intn(6))...)
		c.Probe("shared-slice-prefix")
	}
	defer func() { h264SharedPrefix = nil }()
	pay := opts.build()
	gen := &mediaGen{kind: kind, wellFormed: true}
	long := newDepack(kind)
	name := typeName(long)
	ntrials := 1 + t.Intn(4)
	c.Logf("codec=%s mtu=%d trials=%d", opts, mtu, ntrials)
	jumboA := (kind == kH264 || kind == kH264AVC) && t.Chance(1, 400)
	if jumboA {
		mtu, ntrials = 1200, 1
		c.Probe("jumbo-frame-A")
	}
	first := true
	payload := func(mtu int) [][]byte {
		var frags [][]byte
		for try := 0; try < 4 && len(frags) == 0; try++ {
			media := gen.next(t, mtu)
			if jumboA && first {
				// one fragmented unit of about 1 MiB: what an abandoned train leaves behind can be large
				media = append([]byte{0, 0, 1, 0x65}, nalBody(t, 1<<20-2500+t.Intn(3000))...)
			}
			first = false
			c.Guard("codecs."+kindNames[kind]+"Payloader.Payload", func() { frags = pay.Payload(uint16(mtu), spare(t, media)) })
		}
		return frags
	}
	for tr := 0; tr < ntrials; tr++ {
		// the sender's MTU may change between frames (path MTU discovery, a renegotiation): what frame A
		// left behind was sized for another MTU than frame B's fragments
		mtuA, mtuB := mtu, mtu
		if !jumboA && t.Chance(1, 5) {
			big := []int{1200, 2100, 4200, 9000, 20000}[t.Intn(5)] + t.Intn(100)
			if t.Chance(3, 4) {
				mtuB = big
			} else {
				mtuA = big
			}
			c.Probe("mtu-changes-between-frames")
		}
		a := payload(mtuA)
		b := payload(mtuB)
		if len(a) == 0 || len(b) == 0 {
			continue
		}
		n := len(a)
		if c.Verbose {
			c.Logf("trial %d: frame A = %d payloads %s; frame B = %d payloads %s", tr, len(a), heads(a), len(b), heads(b))
		}
		// what a fresh receiver makes of B alone
		fresh := newDepack(kind)
		type res struct {
			out []byte
			err error
		}
		want := make([]res, len(b))
		for i, p := range b {
			p := append([]byte{}, p...)
			c.Guard("codecs."+name+".Unmarshal(fresh)", func() { want[i].out, want[i].err = fresh.Unmarshal(p) })
		}
		garbage := 0
		if t.Chance(1, 3) {
			garbage = 1 + t.Intn(5)
			c.Probe("garbage-before")
		}
		// a loss pattern: for trains of up to 10 packets every subset (a bit mask); for longer trains a drawn
		// strategy over the WHOLE train (lose the packet with the end marker, the first, a middle run, a random half)
		type lossPattern struct {
			mask         uint64 // n <= 10
			kind, lo, hi int    // n > 10: kind 1 lose [lo,hi); kind 2 lose pseudo-random ~half (seeded by lo)
		}
		var masks []lossPattern
		if n <= 10 {
			for m := uint64(0); m < 1<<uint(n); m++ {
				masks = append(masks, lossPattern{mask: m})
			}
			c.Probe("exhaustive-trains")
		} else {
			c.Probe("sampled-trains")
			nmask := 64
			if n > 200 {
				nmask = 12 // very long trains (jumbo frames): fewer patterns, each costs n calls
			}
			for k := 0; k < nmask; k++ {
				var lp lossPattern
				switch t.Weighted(3, 2, 2, 2) {
				case 0: // lose the last packet (end marker), maybe one more
					lp = lossPattern{kind: 1, lo: n - 1, hi: n}
					if t.Bool() {
						lp.lo = n - 1 - t.Intn(minI(n-1, 3))
					}
				case 1: // lose the first
					lp = lossPattern{kind: 1, lo: 0, hi: 1 + t.Intn(2)}
				case 2: // lose a middle run
					lo := t.Intn(n)
					lp = lossPattern{kind: 1, lo: lo, hi: lo + 1 + t.Intn(n-lo)}
				case 3:
					lp = lossPattern{kind: 2, lo: int(t.Draw(1 << 30))}
				}
				masks = append(masks, lp)
			}
		}
		isLost := func(lp lossPattern, i int) bool {
			switch lp.kind {
			case 0:
				return lp.mask>>uint(i)&1 == 0
			case 1:
				return i >= lp.lo && i < lp.hi
			}
			return core.Mix(uint64(lp.lo)^uint64(i)*0x9E3779B97F4A7C15)&1 == 0
		}
		c.Stats.Probes["subsets"] += int64(len(masks))
		c.Stats.Probes["trains"]++
		for _, m := range masks {
			// garbage history, then the delivered subset of A (order preserved), then B intact
			for g := 0; g < garbage; g++ {
				gb := garbageFor(t, a)
				c.Guard("codecs."+name+".Unmarshal", func() { _, _ = long.Unmarshal(gb) })
			}
			lost := 0
			for i, p := range a {
				if isLost(m, i) {
					lost++
					c.Stats.Faults["loss"]++
					if i == n-1 {
						c.Probe("end-fragment-lost")
					}
					continue
				}
				p := append([]byte{}, p...)
				c.Guard("codecs."+name+".Unmarshal", func() { _, _ = long.Unmarshal(p) })
			}
			if garbage > 0 && t.Chance(1, 3) {
				// garbage may also sit directly in front of the new frame
				gb := garbageFor(t, a)
				c.Guard("codecs."+name+".Unmarshal", func() { _, _ = long.Unmarshal(gb) })
				c.Probe("garbage-between-frames")
			}
			if lost > 0 {
				c.Fingerprint(uint64(kind), uint64(n), m.mask, uint64(m.kind), uint64(m.lo*16/(n+1)), uint64(m.hi*16/(n+1)), b2u(garbage > 0))
			}
			c.Ev("subset", uint64(n), m.mask, uint64(m.kind), uint64(m.lo), uint64(m.hi))
			for i, p := range b {
				p := append([]byte{}, p...)
				var out []byte
				var err error
				if c.Guard("codecs."+name+".Unmarshal", func() { out, err = long.Unmarshal(p) }) {
					return
				}
				if (err == nil) != (want[i].err == nil) {
					c.Violate("resync", fmt.Sprintf("C15/differs-from-fresh/%s/error", name),
						"after delivering loss pattern %+v of a %d-packet frame, packet %d of the next intact frame: long-lived err=%v, fresh err=%v", m, n, i, err, want[i].err)
					return
				}
				if err == nil && !bytes.Equal(out, want[i].out) {
					what := "bytes"
					c.Violate("resync", fmt.Sprintf("C15/differs-from-fresh/%s/%s", name, what),
						"after delivering loss pattern %+v (garbage %d) of a %d-packet frame, packet %d/%d of the next intact frame decodes to %d bytes on the long-lived receiver, %d on a fresh one", m, garbage, n, i, len(b), len(out), len(want[i].out))
					return
				}
			}
		}
	}
}

// heads renders the first bytes of each payload of a train.
func heads(ps [][]byte) string {
	s := "["
	for i, p := range ps {
		if i > 0 {
			s += " "
		}
		if i >= 12 {
			s += "…"
			break
		}
		s += fmt.Sprintf("%.3x/%d", p, len(p))
	}
	return s + "]"
}

func garbageFor(t *core.Tape, genuine [][]byte) []byte {
	switch t.Weighted(2, 2, 1, 3) {
	case 0:
		return t.Bytes(t.Intn(24))
	case 1:
		n := 1 + t.Intn(8)
		b := make([]byte, n)
		for i := range b {
			b[i] = boundaryAlphabet[t.Intn(len(boundaryAlphabet))]
		}
		return b
	case 2:
		if t.Bool() {
			return nil
		}
		return []byte{}
	}
	b := append([]byte{}, genuine[t.Intn(len(genuine))]...)
	if len(b) > 0 {
		b[t.Intn(minI(2, len(b)))] ^= 1 << uint(t.Intn(8))
	}
	if len(b) >= 2 && t.Chance(1, 4) {
		v := []uint16{0xFFFF, 0xFFFE, 0x0000, 0x8000}[t.Intn(4)]
		i := t.Intn(len(b) - 1)
		b[i], b[i+1] = byte(v>>8), byte(v)
	}
	if len(b) > 1 && t.Bool() {
		b = b[:1+t.Intn(len(b)-1)]
	}
	return b
}

var _ rtp.Depacketizer
