package checks

import (
	"bytes"
	"errors"
	"fmt"
	"io"

	"github.com/pion/rtp"

	"verifsim/core"
)

// C04 — MarshalTo honours the destination buffer contract.
//
// World: a sender marshals its traffic with MarshalTo into buffers taken from a pool. A
// pooled buffer keeps whatever an earlier packet (or the pool's poison pattern) left in
// it, and comes back after a drawn "transmission" delay; the capacity handed to
// MarshalTo is drawn per acquisition around the interesting sizes.

type poolBuf struct {
	b     []byte
	inUse bool
	gen   int // how many times marshalled into
}

func init() {
	register(&Check{
		ID:      "C04",
		Tenants: func(c *core.Ctx, i int) tenant { return tenantPacket(c, "marshalto") }, Level: "exploration", Configs: []string{"clean"},
		Run:         runC04,
		QuickRuns:   1_500_000,
		ThoroughSec: 600,
		Rule: "one run = one sender marshalling 1-12 drawn well-formed packets (0-15 CSRC, none/one-byte/two-byte/legacy extensions, " +
			"empty..large payload, RTP padding 0-255) with Packet.MarshalTo and Header.MarshalTo into buffers of a recycling pool " +
			"(1-4 buffers, prior contents = earlier packets or poison) at drawn destination lengths {0,1,11,12,hdr-1,hdr,size-1,size,size+1,size+k, uniform below size}; " +
			"fingerprint = hash(packet shape, destination-length class, dirty/clean, buffer generation>0); non-trivial = the destination was dirty " +
			"(previously used or poisoned) or shorter than MarshalSize",
		Real: []string{"rtp.Packet.MarshalTo", "rtp.Header.MarshalTo", "rtp.Packet.Marshal", "rtp.Packet.MarshalSize", "rtp.Header.MarshalSize", "rtp.Header.SetExtension"},
		Stub: []string{"packet source (seeded generator)", "buffer pool with recycling and poison", "event loop / transmission delay"},
		Assumptions: []string{
			"Marshal() on a private clean buffer is the reference for MarshalTo (the statement says 'identical to Marshal()')",
			"well-formed = generator of rtpgen.go: extensions set through SetExtension on a header with a preset profile",
		},
		ProbeNames: []string{"exact-fit", "one-short", "dirty-under-ext-padding", "dirty-under-rtp-padding", "header-only-cap-between"},
	})
}

func runC04(c *core.Ctx) {
	t := c.T
	loop := core.NewLoop(c, 2000)
	nbuf := 1 + t.Intn(4)
	pool := make([]*poolBuf, nbuf)
	for i := range pool {
		pool[i] = &poolBuf{b: make([]byte, 4096)}
		fill := byte([]int{0xEE, 0xFF, 0x00, 0xA5}[t.Intn(4)])
		for j := range pool[i].b {
			pool[i].b[j] = fill
		}
	}
	npk := 1 + t.Intn(12)
	var send func(k int)
	send = func(k int) {
		if k >= npk {
			return
		}
		spec := genPacketSpec(t, 1400)
		maxExt := k == 0 && t.Chance(1, 150)
		if maxExt {
			// the largest RFC 3550 extension the 16-bit length word can describe, and its neighbours
			words := []int{65535, 65534, 65535, 65533, 32768, 16384}[t.Intn(6)]
			spec.profile, spec.legacyProfile = profLegacy, drawLegacyProfile(t)
			spec.exts = []extEl{{0, t.Bytes(4 * words)}}
			if len(spec.payload) > 64 {
				spec.payload = spec.payload[:64]
			}
			c.Probe("max-length-extension")
		}
		pkt, ok := spec.buildx(c, t.Chance(1, 3)) // zero-length values handed over as nil slices in a third of the packets
		if !ok {
			c.Violate("setup", "C04/setup/set-extension-rejected-well-formed", "SetExtension rejected a well-formed element of %s", spec)
			return
		}
		// acquire a free buffer (lowest index first; deterministic)
		var pb *poolBuf
		for _, b := range pool {
			if !b.inUse {
				pb = b
				break
			}
		}
		if pb == nil { // all in flight: this packet waits for the next slot
			loop.After(1000, func() { send(k) })
			return
		}
		cur := pb
		if maxExt || spec.layout().total+600 > len(pb.b) {
			cur = &poolBuf{b: make([]byte, spec.layout().total+128+2048)}
			core.FillBytes(cur.b, t.Draw(0)|1)
		}
		c04one(c, spec, pkt, cur)
		// the same *Packet is modified and marshalled again (a forwarder rewriting a header it has already
		// sent once): anything the packet remembers from the first MarshalTo is now part of its history
		for gen := 0; gen < 2 && len(c.Viol) == 0 && t.Chance(1, 3); gen++ {
			if c04mutate(c, spec, pkt) {
				c.Probe("re-marshal-after-modification")
				c04one(c, spec, pkt, cur)
			}
		}
		pb.inUse = true
		pb.gen++
		loop.After(int64(1+t.Intn(5000)), func() { pb.inUse = false; c.Ev("release") })
		loop.After(int64(t.Intn(3000)), func() { send(k + 1) })
	}
	loop.After(0, func() { send(0) })
	loop.Run()
}

func c04one(c *core.Ctx, spec *pktSpec, pkt *rtp.Packet, pb *poolBuf) {
	t := c.T
	var size, hsize int
	var want, hwant []byte
	var werr, hwerr error
	if c.Guard("rtp.Packet.MarshalSize", func() { size = pkt.MarshalSize(); hsize = pkt.Header.MarshalSize() }) {
		return
	}
	if c.Guard("rtp.Packet.Marshal", func() { want, werr = pkt.Marshal(); hwant, hwerr = pkt.Header.Marshal() }) {
		return
	}
	l := spec.layout()
	if werr != nil || hwerr != nil {
		// Marshal() IS MarshalTo into an exact-fit destination: failing there on a well-formed packet
		// breaks the "sufficient destination" clause itself (and leaves the check without a reference).
		c.Violate("sufficient", "C04/exact-fit/marshal-itself-fails", "Marshal() (MarshalTo into an exact-fit buffer) failed on a well-formed packet: %v / %v (%s)", werr, hwerr, spec)
		return
	}
	if len(want) != size || len(hwant) != hsize {
		// Marshal() is MarshalTo into a buffer of MarshalSize() bytes: "writes exactly MarshalSize() bytes"
		c.Violate("n", "C04/marshal-length-differs-from-marshalsize", "Marshal() returned %d bytes, MarshalSize() is %d (header: %d vs %d) (%s)", len(want), size, len(hwant), hsize, spec)
		return
	}
	if size != l.total {
		// a MarshalSize that disagrees with the model's canonical layout is C01's subject; C04 needs a reference
		c.Probe("no-reference")
		c.Ev("noref", uint64(size), uint64(l.total))
		return
	}
	headerOnly := t.Chance(1, 4)
	target := size
	if headerOnly {
		target = hsize
	}
	// destination length class
	cls := t.Weighted(5, 4, 3, 1, 1, 1, 1, 1, 1, 2, 3)
	var dlen int
	switch cls {
	case 0:
		dlen = target + 1 + t.Intn(64)
	case 1:
		dlen = target
		c.Probe("exact-fit")
	case 2:
		dlen = target - 1
		c.Probe("one-short")
	case 3:
		dlen = 0
	case 4:
		dlen = 1
	case 5:
		dlen = 11
	case 6:
		dlen = 12
	case 7:
		dlen = hsize - 1
	case 8:
		dlen = hsize
		if !headerOnly && hsize < size {
			c.Probe("packet-cap-equals-header")
		}
	case 9:
		dlen = target + 1
	case 10:
		dlen = t.Intn(target + 1) // anywhere below (or at) the needed size
	}
	if dlen < 0 {
		dlen = 0
	}
	if headerOnly && dlen >= hsize && dlen < size {
		c.Probe("header-only-cap-between")
	}
	// dirty the buffer some more, or leave what the previous packet left
	dirty := pb.gen > 0 || pb.b[0] != 0 || pb.b[len(pb.b)-1] != 0
	if t.Chance(1, 4) {
		core.FillBytes(pb.b, t.Draw(0)|1)
		dirty = true
	} else if t.Chance(1, 8) {
		for i := range pb.b {
			pb.b[i] = 0
		}
		dirty = false
	}
	if dlen+8 > len(pb.b) { // a packet that outgrew its buffer class: the pool hands out a larger (dirty) one
		nb := make([]byte, dlen+64)
		core.FillBytes(nb, uint64(dlen)|1)
		copy(nb, pb.b)
		pb.b = nb
	}
	off := t.Intn(8)
	if off+dlen > len(pb.b) {
		off = 0
	}
	dst := pb.b[off : off+dlen]
	if dlen == 0 && t.Bool() {
		dst = nil // a caller that has no buffer yet: length 0 like any other too-short destination
		c.Probe("nil-destination")
	}
	snap := append([]byte(nil), pb.b...)
	short := dlen < target
	if dirty || short {
		c.Fingerprint(spec.shape(), uint64(cls), b2u(dirty), b2u(pb.gen > 0), b2u(headerOnly))
	}
	if dirty {
		c.Fault("dirty_dst")
		if spec.padSize > 1 && !headerOnly && !short {
			c.Probe("dirty-under-rtp-padding")
		}
		if l.extEnd > l.extBodyEnd && !short {
			c.Probe("dirty-under-ext-padding")
		}
	}
	if short {
		c.Fault("short_dst")
	}
	api := "rtp.Packet.MarshalTo"
	if headerOnly {
		api = "rtp.Header.MarshalTo"
	}
	var n int
	var err error
	if c.Guard(api, func() {
		if headerOnly {
			n, err = pkt.Header.MarshalTo(dst)
		} else {
			n, err = pkt.MarshalTo(dst)
		}
	}) {
		return
	}
	c.Ev("marshalto", uint64(dlen), uint64(n), b2u(err != nil), core.HashBytes(dst))
	c.Logf("%s %s dst=%d (need %d) dirty=%v -> n=%d err=%v", api, spec, dlen, target, dirty, n, err)
	kind := "packet"
	ref := want
	if headerOnly {
		kind = "header"
		ref = hwant
	}
	if short {
		switch {
		case err == nil:
			c.Violate("short-buffer", fmt.Sprintf("C04/%s/short-buffer/no-error", kind), "%s with dst %d < size %d returned n=%d and no error", api, dlen, target, n)
		case !errors.Is(err, io.ErrShortBuffer):
			c.Violate("short-buffer", fmt.Sprintf("C04/%s/short-buffer/wrong-error", kind), "%s with dst %d < size %d returned %v, not a short-buffer error", api, dlen, target, err)
		}
		return
	}
	if err != nil {
		c.Violate("sufficient", fmt.Sprintf("C04/%s/sufficient-buffer/error", kind), "%s with dst %d >= size %d failed: %v (%s)", api, dlen, target, err, spec)
		return
	}
	if n != target {
		c.Violate("n", fmt.Sprintf("C04/%s/n-differs", kind), "%s returned n=%d, MarshalSize()=%d (%s)", api, n, target, spec)
		return
	}
	if !bytes.Equal(dst[:n], ref) {
		i := 0
		for i < n && dst[i] == ref[i] {
			i++
		}
		onlyRegion := l.region(i)
		for j := i; j < n; j++ {
			if dst[j] != ref[j] && l.region(j) != onlyRegion {
				onlyRegion = "several-regions-from-" + l.region(i)
				break
			}
		}
		c.Violate("bytes", fmt.Sprintf("C04/%s/bytes-differ/%s", kind, onlyRegion),
			"%s into a dirty buffer differs from Marshal() at byte %d (%s): got %#x want %#x (%s)", api, i, l.region(i), dst[i], ref[i], spec)
	}
	// bytes beyond n, and before the destination, must be untouched
	if !bytes.Equal(pb.b[off+n:], snap[off+n:]) || !bytes.Equal(pb.b[:off], snap[:off]) {
		c.Violate("tail", fmt.Sprintf("C04/%s/beyond-n-modified", kind), "%s modified bytes outside dst[:n] (n=%d, dst=%d) (%s)", api, n, dlen, spec)
	}
}

func b2u(b bool) uint64 {
	if b {
		return 1
	}
	return 0
}

// c04mutate changes the packet and its model in step, through the public API / exported fields.
func c04mutate(c *core.Ctx, spec *pktSpec, pkt *rtp.Packet) bool {
	t := c.T
	switch t.Intn(4) {
	case 0: // replace an extension value by one of another legal length (SetExtension's update-in-place path)
		if len(spec.exts) == 0 {
			return false
		}
		j := t.Intn(len(spec.exts))
		var n int
		switch spec.profile {
		case profOneByte:
			n = 1 + t.Intn(16)
		case profTwoByte:
			n = t.Intn(256)
		default:
			n = 4 * t.Intn(40)
		}
		nv := t.Bytes(n)
		var err error
		if c.Guard("rtp.Header.SetExtension", func() { err = pkt.SetExtension(spec.exts[j].id, append([]byte{}, nv...)) }) || err != nil {
			return false
		}
		spec.exts[j].val = nv
	case 1: // the CSRC list grows or shrinks (exported field)
		if len(spec.csrc) < 15 && t.Bool() {
			v := uint32(t.Draw(1 << 32))
			spec.csrc = append(spec.csrc, v)
			pkt.CSRC = append(pkt.CSRC, v)
		} else if len(spec.csrc) > 0 {
			spec.csrc = spec.csrc[:len(spec.csrc)-1]
			pkt.CSRC = pkt.CSRC[:len(pkt.CSRC)-1]
		} else {
			return false
		}
	case 2: // another payload
		spec.payload = t.Bytes(t.Intn(64))
		pkt.Payload = append([]byte{}, spec.payload...)
	case 3: // an element is deleted
		if len(spec.exts) == 0 || spec.profile == profLegacy {
			return false
		}
		j := t.Intn(len(spec.exts))
		var err error
		if c.Guard("rtp.Header.DelExtension", func() { err = pkt.DelExtension(spec.exts[j].id) }) || err != nil {
			return false
		}
		spec.exts = append(spec.exts[:j:j], spec.exts[j+1:]...)
	}
	return true
}
