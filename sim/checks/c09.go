package checks

import (
	"bytes"
	"fmt"

	"github.com/pion/rtp"

	"verifsim/core"
)

// C09 — depacketizers are panic-free, reuse-safe and own the state they retain.
//
// World: a matching real payloader streams generated frames through a wire that drops,
// duplicates, reorders (lossy) and additionally corrupts, truncates and injects
// (hostile). One long-lived receiver consumes every datagram out of recycled receive
// buffers, with drawn interleavings of Unmarshal / IsPartitionHead / IsPartitionTail.

var c09Kinds = []int{kH264, kH264AVC, kH265, kH265DONL, kVP8, kVP9, kVP9Flex, kAV1Dep, kAV1Pkt, kOpus}

func init() {
	register(&Check{
		ID: "C09",
		Tenants: func(c *core.Ctx, i int) tenant {
			return tenantDepack(c, []int{kH264, kH264AVC, kH265, kH265DONL, kVP8, kVP9, kVP9Flex, kAV1Dep, kAV1Pkt, kOpus}[c.T.Intn(10)])
		}, Level: "exploration", Configs: []string{"lossy", "hostile", "hostile"},
		Run: runC09, PrePass: prepassC09,
		QuickRuns:   450_000,
		ThoroughSec: 720,
		Rule: "one run = one codec (H264 Annex-B/AVC, H265 +-DONL, VP8, VP9 both modes, AV1Depacketizer, AV1Packet+frame.AV1, Opus): a real payloader streams 1-10 " +
			"generated frames over a simulated wire (lossy: loss/dup/reorder; hostile: + bit flips, truncation, injected garbage incl. nil/empty/mutated genuine payloads) " +
			"to one long-lived real depacketizer fed from 1-3 recycled receive buffers that are overwritten/poisoned at drawn instants; fingerprint = hash(codec, options, " +
			"per-delivery (fault class, success/failure, had-state-before) sequence truncated to 12 deliveries); non-trivial = at least one fault fired or one recycle/poison hit a buffer the receiver had been handed",
		Real: []string{"codecs.*Payloader.Payload", "codecs.H264Packet", "codecs.H265Packet", "codecs.VP8Packet", "codecs.VP9Packet", "codecs.AV1Depacketizer", "codecs.AV1Packet", "frame.AV1.ReadFrames", "codecs.OpusPacket"},
		Stub: []string{"media source", "wire (loss, dup, reorder, corrupt, truncate, inject)", "receive buffer pool (recycle, poison)", "fresh-receiver and shadow-instance oracles"},
		Assumptions: []string{
			"reused == fresh is required only after a successful decode (state after a failed decode is not compared, but stays in the history)",
			"returned slices may alias the input of the same call (zero-copy is documented); only state carried to later calls must be owned",
		},
		ProbeNames: []string{"fua-start-without-end-then-recycle", "av1-Y-then-recycle", "vp9-pdiff-after-none", "av1packet-reused", "success-after-failure"},
	})
}

type c09rx struct {
	kind             int
	primary          rtp.Depacketizer // long-lived, fed from recycled buffers
	shadow           rtp.Depacketizer // same type, fed pristine private copies (stateful kinds only)
	stateful         bool
	pool             *rxPool
	hadFail          bool
	zeroAlloc        bool // SetZeroAllocation(true) on every instance of this run (an option setting like AVC or DONL)
	pendingS         bool // a fragment train was left open by the last packet
	vp9NoPDiffBefore bool
	fp               []uint64
}

// isStatefulKind: the kinds whose retained state the statement requires to be owned
// (H264Packet, AV1Depacketizer). The deprecated AV1Packet + frame.AV1 path is held to
// the no-panic clause only: the statement does not list it under ownership or reuse
// (a reused AV1Packet returns its earlier OBU elements by design of its cache).
func isStatefulKind(kind int) bool {
	return kind == kH264 || kind == kH264AVC || kind == kAV1Dep
}

func runC09(c *core.Ctx) {
	t := c.T
	kind := c09Kinds[t.Intn(len(c09Kinds))]
	opts := drawPayloaderOpts(t, kind)
	mtu := opts.minMTU() + []int{8, 2, 30, 1188, 100}[t.Intn(5)] + t.Intn(8)
	if (kind == kAV1Dep || kind == kAV1Pkt) && t.Chance(1, 150) {
		mtu = 65535 // jumbo: OBUs around 2 MiB travel in a few dozen packets
		c.Probe("jumbo-mtu")
	}
	cfg := drawWireCfg(t, c.Config)
	loop := core.NewLoop(c, 5000)
	zeroAlloc := t.Chance(1, 5)
	rx := &c09rx{kind: kind, zeroAlloc: zeroAlloc, primary: newDepackOpt(kind, zeroAlloc), stateful: isStatefulKind(kind), pool: newRxPool(c, 1+t.Intn(3))}
	if rx.stateful {
		rx.shadow = newDepackOpt(kind, zeroAlloc)
	}
	if zeroAlloc {
		c.Probe("zero-allocation-mode")
	}
	if a, ok := rx.primary.(*av1PktAdapter); ok && t.Bool() {
		a.reuse = true
		c.Probe("av1packet-reused")
	}
	c.Logf("codec=%s mtu=%d wire=%+v rxbufs=%d", opts, mtu, cfg, len(rx.pool.bufs))
	var w *wire
	w = newWire(c, loop, cfg, func(d datagram) { c09deliver(c, rx, d, loop) })
	pay := opts.build()
	gen := &mediaGen{kind: kind}
	nframes := 1 + t.Intn(10)
	var sendFrame func(f int)
	sendFrame = func(f int) {
		if f >= nframes {
			return
		}
		media := gen.next(t, mtu)
		var frags [][]byte
		if fr := c09foreign(t, kind, mtu); fr != nil {
			frags = fr // a foreign peer: forms this library's payloaders never emit (PACI, all descriptor flags, STAP-A of 1-5 units)
			c.Probe("foreign-peer-frame")
		} else if c.Guard("codecs."+kindNames[kind]+"Payloader.Payload", func() { frags = pay.Payload(uint16(mtu), media) }) {
			return
		}
		c.Logf("sender: frame %d (%d bytes) -> %d payloads", f, len(media), len(frags))
		for i, fr := range frags {
			w.Send(datagram{frame: f, idx: i, marker: i == len(frags)-1, b: fr})
		}
		loop.After(int64(1_000_000+t.Intn(40_000_000)), func() { sendFrame(f + 1) })
	}
	loop.After(0, func() { sendFrame(0) })
	loop.Run()
	faults := int64(0)
	for _, k := range []string{"loss", "dup", "reorder", "corrupt", "truncate", "inject", "poison", "recycle"} {
		faults += c.Stats.Faults[k]
	}
	if len(rx.fp) > 0 {
		h := []uint64{uint64(kind), b2u(opts.disableStapA), b2u(opts.skipAgg), b2u(opts.vp8PicID)}
		if len(rx.fp) > 12 {
			rx.fp = rx.fp[:12]
		}
		c.Fingerprint(append(h, rx.fp...)...)
	}
}

func c09deliver(c *core.Ctx, rx *c09rx, d datagram, loop *core.Loop) {
	t := c.T
	buf := rx.pool.put(d.b)
	var private []byte
	if d.b != nil {
		private = append([]byte{}, d.b...)
	}
	name := typeName(rx.primary)
	// drawn interleaving of the three entry points
	order := t.Intn(4)
	callAux := func() {
		var h1, h2, t1, t2 bool
		c.Guard("codecs."+name+".IsPartitionHead", func() { h1 = rx.primary.IsPartitionHead(buf) })
		c.Guard("codecs."+name+".IsPartitionTail", func() { t1 = rx.primary.IsPartitionTail(d.marker, buf) })
		if !rx.stateful && rx.kind != kAV1Pkt {
			fresh := newDepackOpt(rx.kind, rx.zeroAlloc)
			c.Guard("codecs."+name+".IsPartitionHead", func() { h2 = fresh.IsPartitionHead(private) })
			c.Guard("codecs."+name+".IsPartitionTail", func() { t2 = fresh.IsPartitionTail(d.marker, private) })
			if h1 != h2 || t1 != t2 {
				c.Violate("reuse", fmt.Sprintf("C09/reuse-differs/%s/partition-flags", name), "IsPartitionHead/Tail on a reused receiver %v/%v differ from a fresh one %v/%v", h1, t1, h2, t2)
			}
		}
	}
	if order == 1 || order == 3 {
		callAux()
	}
	var out, out2 []byte
	var err, err2 error
	panicked := c.Guard("codecs."+name+".Unmarshal", func() { out, err = rx.primary.Unmarshal(buf) })
	cls := uint64(0)
	switch {
	case d.garbage:
		cls = 1
	case d.damaged:
		cls = 2
	case d.dup:
		cls = 3
	}
	if d.garbage || d.damaged || d.dup || rx.pool.next > len(rx.pool.bufs) || c.Stats.Faults["loss"] > 0 {
		rx.fp = append(rx.fp, cls<<8|b2u(err != nil)<<4|b2u(rx.hadFail)<<2|b2u(rx.pendingS))
	}
	c.Logf("rx: %s.Unmarshal(%d bytes%s) -> %d bytes err=%v", name, len(buf), map[bool]string{true: ", garbage", false: ""}[d.garbage], len(out), err)
	if panicked {
		return
	}
	if err == nil && rx.hadFail {
		c.Probe("success-after-failure")
	}
	if (rx.kind == kVP9 || rx.kind == kVP9Flex) && err == nil && len(private) > 0 {
		fp := private[0]&0x50 == 0x50 // F and P: reference indices present
		if fp && rx.vp9NoPDiffBefore {
			c.Probe("vp9-pdiff-after-none")
		}
		rx.vp9NoPDiffBefore = !fp
	}
	if err != nil {
		rx.hadFail = true
	}
	if rx.stateful {
		// shadow instance: same calls, pristine private copies, never recycled
		if c.Guard("codecs."+name+".Unmarshal(shadow)", func() { out2, err2 = rx.shadow.Unmarshal(private) }) {
			return
		}
		if (err == nil) != (err2 == nil) {
			c.Violate("shadow", fmt.Sprintf("C09/shadow-divergence/%s/error", name), "receiver fed from recycled buffers returned err=%v, shadow fed private copies err=%v", err, err2)
		} else if err == nil && !bytes.Equal(out, out2) {
			c.Violate("shadow", fmt.Sprintf("C09/shadow-divergence/%s/bytes", name),
				"receiver fed from recycled buffers returned %d bytes %.24x…, shadow fed private copies of the same payloads %d bytes %.24x…: retained state aliases a recycled input buffer", len(out), out, len(out2), out2)
		}
		// probes: is fragment state in flight?
		switch rx.kind {
		case kH264, kH264AVC:
			if len(private) >= 2 && private[0]&0x1F == 28 && err == nil {
				rx.pendingS = private[1]&0x40 == 0
			} else if err == nil {
				rx.pendingS = false
			}
		case kAV1Dep, kAV1Pkt:
			if len(private) >= 2 && err == nil {
				rx.pendingS = private[0]&0x40 != 0
			}
		}
	} else if rx.kind != kAV1Pkt {
		fresh := newDepackOpt(rx.kind, rx.zeroAlloc)
		if c.Guard("codecs."+name+".Unmarshal(fresh)", func() { out2, err2 = fresh.Unmarshal(private) }) {
			return
		}
		if (err == nil) != (err2 == nil) {
			c.Violate("reuse", fmt.Sprintf("C09/reuse-differs/%s/error", name), "reused receiver err=%v, fresh receiver err=%v on the same payload", err, err2)
		} else if err == nil {
			if !bytes.Equal(out, out2) {
				c.Violate("reuse", fmt.Sprintf("C09/reuse-differs/%s/returned-bytes", name), "reused receiver returned %x, fresh %x", out, out2)
			}
			if k, a, b := firstDiff(describe(rx.primary), describe(fresh)); k != "" {
				c.Violate("reuse", fmt.Sprintf("C09/reuse-differs/%s/%s", name, k), "after decoding the same payload a reused %s has %s=%s, a fresh one %s=%s", name, k, a, k, b)
			}
		}
	}
	if order >= 2 {
		callAux()
	}
	// recycle / poison at a drawn later instant (possibly before the next delivery)
	if t.Chance(1, 3) {
		pend := rx.pendingS
		loop.After(int64(t.Intn(3_000_000)), func() {
			rx.pool.poison()
			if pend {
				if rx.kind == kH264 || rx.kind == kH264AVC {
					c.Probe("fua-start-without-end-then-recycle")
				} else {
					c.Probe("av1-Y-then-recycle")
				}
			}
		})
	}
}

// prepassC09 feeds every byte string of length <= 3 (and nil) once to one long-lived
// receiver per depacketizer: a deterministic pre-pass over a small alphabet of
// histories, reported separately from the seeded runs.
func prepassC09(c *core.Ctx) int {
	cases := 0
	for ki, kind := range append(append([]int{}, c09Kinds...), kH264, kH265, kVP8, kVP9, kAV1Dep) {
		d := newDepackOpt(kind, ki >= len(c09Kinds)) // the second pass over the video kinds runs in zero-allocation mode
		name := typeName(d)
		feed := func(b []byte) {
			cases++
			c.Guard("codecs."+name+".Unmarshal", func() { _, _ = d.Unmarshal(b) })
			c.Guard("codecs."+name+".IsPartitionHead", func() { d.IsPartitionHead(b) })
			c.Guard("codecs."+name+".IsPartitionTail", func() { d.IsPartitionTail(true, b) })
		}
		feed(nil)
		feed([]byte{})
		var b1 [1]byte
		var b2 [2]byte
		var b3 [3]byte
		for i := 0; i < 256; i++ {
			b1[0] = byte(i)
			feed(b1[:])
		}
		for i := 0; i < 1<<16; i++ {
			b2[0], b2[1] = byte(i>>8), byte(i)
			feed(b2[:])
		}
		for i := 0; i < 1<<24; i++ {
			b3[0], b3[1], b3[2] = byte(i>>16), byte(i>>8), byte(i)
			feed(b3[:])
			if len(c.Viol) > 8 {
				return cases
			}
		}
		// longer strings, structured: a codec-specific head, every value of the next 16 bits (where
		// the headers keep their size, count and flag fields), and tails of 1-5 bytes
		for _, head := range c09Heads(kind) {
			buf := make([]byte, 0, len(head)+7)
			for i := 0; i < 1<<16; i++ {
				for tl := 1; tl <= 5; tl++ {
					buf = append(buf[:0], head...)
					buf = append(buf, byte(i>>8), byte(i))
					for j := 0; j < tl; j++ {
						buf = append(buf, []byte{0x00, 0xFF, 0x01, 0x80, 0x7F}[(i+j+tl)%5])
					}
					feed(buf)
				}
			}
			if len(c.Viol) > 8 {
				return cases
			}
		}
	}
	return cases
}

// c09Heads lists the payload heads after which the structured pre-pass sweeps 16 bits.
func c09Heads(kind int) [][]byte {
	switch kind {
	case kH264, kH264AVC:
		return [][]byte{{24}, {28}, {25}, {29}, {0x7C}, {24, 0, 1, 0x65}}
	case kH265, kH265DONL:
		return [][]byte{{48 << 1, 1}, {49 << 1, 1}, {50 << 1, 1}, {50<<1 | 1, 0xFF}, {48 << 1, 1, 0, 1, 0x40}}
	case kVP8:
		return [][]byte{{0x90}, {0x80}, {0xFF}}
	case kVP9, kVP9Flex:
		return [][]byte{{0x80}, {0xC0}, {0xA0}, {0x90}, {0x82}, {0xFA}, {0xBA}, {0x02}}
	case kAV1Dep, kAV1Pkt:
		return [][]byte{{0x00}, {0x10}, {0x20}, {0x30}, {0x80}, {0x40}, {0xC0}}
	}
	return nil
}

// c09foreign returns, for one frame in three of the kinds that have an independent writer,
// payloads from that writer instead of the library's payloader.
func c09foreign(t *core.Tape, kind, mtu int) [][]byte {
	switch kind {
	case kH265, kH265DONL, kVP8, kVP9, kVP9Flex, kH264, kH264AVC:
	default:
		t.Draw(1)
		return nil
	}
	if !t.Chance(1, 3) {
		return nil
	}
	switch kind {
	case kH265, kH265DONL:
		ps, _ := foreignH265x(t, genH265Units(t, mtu), kind == kH265DONL, true)
		return ps
	case kH264, kH264AVC:
		st := 0
		au := genH264AU(t, mtu, false, &st)
		return foreignH264(t, au.units)
	case kVP8:
		var out [][]byte
		for i := 0; i < 1+t.Intn(4); i++ {
			_, d := genVP8Desc(t)
			out = append(out, append(d, t.Bytes(t.Intn(12))...))
		}
		return out
	default:
		var out [][]byte
		for i := 0; i < 1+t.Intn(4); i++ {
			_, d := genVP9Desc(t)
			out = append(out, append(d, t.Bytes(t.Intn(12))...))
		}
		return out
	}
}
