package checks

import (
	"encoding/binary"
	"fmt"

	"github.com/pion/rtp"

	"verifsim/core"
)

// extEl is one header-extension element of the model.
type extEl struct {
	id  uint8
	val []byte
}

// pktSpec is the model-side description of a well-formed RTP packet.
type pktSpec struct {
	version       uint8
	marker        bool
	pt            uint8
	seq           uint16
	ts, ssrc      uint32
	csrc          []uint32
	profile       int    // 0 none, 1 one-byte, 2 two-byte, 3 legacy (RFC 3550)
	legacyProfile uint16 // profile id when profile == 3
	exts          []extEl
	payload       []byte
	padSize       uint8 // 0 = no padding
	// aliasScratch: when set, every extension value handed to SetExtension is scratch[:len(value)] — the
	// caller fills elements from ONE scratch buffer (all values are prefixes of it and start at the same address)
	aliasScratch []byte
}

const (
	profNone = iota
	profOneByte
	profTwoByte
	profLegacy
)

// genPacketSpec draws a well-formed packet; the zero tape gives the simplest packet
// (version 2, no CSRC, no extension, 1-byte payload, no padding).
func genPacketSpec(t *core.Tape, maxPayload int) *pktSpec {
	s := &pktSpec{version: 2}
	if t.Chance(1, 16) {
		s.version = uint8(t.Intn(4))
	}
	s.marker = t.Bool()
	s.pt = uint8(t.Intn(128))
	s.seq = uint16(t.Draw(1 << 16))
	s.ts = uint32(t.Draw(1 << 32))
	s.ssrc = uint32(t.Draw(1 << 32))
	switch t.Weighted(6, 2, 1, 1) {
	case 1:
		s.csrc = make([]uint32, 1+t.Intn(3))
	case 2:
		s.csrc = make([]uint32, 15)
	case 3:
		s.csrc = make([]uint32, t.Intn(16))
	}
	for i := range s.csrc {
		s.csrc[i] = uint32(t.Draw(1 << 32))
	}
	s.profile = t.Weighted(4, 4, 3, 1)
	switch s.profile {
	case profOneByte:
		n := 1 + t.Weighted(6, 3, 1, 1)
		if t.Chance(1, 12) {
			n = 0 // extension flag set, empty extension block
		}
		used := map[uint8]bool{}
		for i := 0; i < n; i++ {
			id := uint8(1 + t.Intn(14))
			if used[id] {
				continue
			}
			used[id] = true
			l := []int{1, 2, 3, 4, 16, 8, 15}[t.Intn(7)]
			s.exts = append(s.exts, extEl{id, t.Bytes(l)})
		}
	case profTwoByte:
		n := 1 + t.Weighted(6, 3, 1, 1)
		if t.Chance(1, 12) {
			n = 0
		}
		if t.Chance(1, 20) {
			n = 15 + t.Intn(30) // many elements: whatever an implementation does "from N elements on"
		}
		used := map[uint8]bool{}
		for i := 0; i < n; i++ {
			id := uint8(1 + t.Intn(255))
			if used[id] {
				continue
			}
			used[id] = true
			l := []int{1, 0, 2, 4, 17, 255, 32}[t.Intn(7)]
			s.exts = append(s.exts, extEl{id, t.Bytes(l)})
		}
		if t.Chance(1, 300) {
			// a full house: all 255 ids with (nearly) full values, an extension block of 65532-65535 octets before alignment -
			// 16384 words, the first length whose octet count no longer fits 16 bits
			s.exts = s.exts[:0]
			first := t.Intn(255)
			short := t.Intn(4)
			for i := 0; i < 255; i++ {
				l := 255
				if i == 200 {
					l -= short
				}
				s.exts = append(s.exts, extEl{uint8(1 + (first+i)%255), t.Bytes(l)})
			}
		}
	case profLegacy:
		s.legacyProfile = drawLegacyProfile(t)
		words := t.Intn(5)
		if t.Chance(1, 6) {
			words = 60 + t.Intn(200) // RFC 3550 extensions are not limited to 255 bytes
		}
		s.exts = []extEl{{0, t.Bytes(4 * words)}}
	}
	switch t.Weighted(6, 2, 1, 1) {
	case 0:
		s.payload = t.Bytes(1 + t.Intn(24))
	case 1:
		s.payload = t.Bytes(0)
	case 2:
		s.payload = t.Bytes(t.Intn(maxPayload + 1))
	case 3:
		s.payload = t.Bytes(maxPayload)
	}
	if t.Chance(1, 3) {
		s.padSize = uint8([]int{1, 2, 4, 255, 7, 128}[t.Intn(6)])
		if t.Chance(1, 4) {
			s.padSize = uint8(1 + t.Intn(255))
		}
	}
	return s
}

// drawLegacyProfile draws an RFC 3550 profile id that is neither 0xBEDE nor 0x1000, biased to
// the neighbours of those two values (0x1001-0x100F are the RFC 8285 "appbits" look-alikes).
func drawLegacyProfile(t *core.Tape) uint16 {
	var p uint16
	switch t.Weighted(3, 3, 2) {
	case 0:
		p = uint16(t.Draw(1 << 16))
	case 1:
		p = uint16(0x1001 + t.Intn(15))
	case 2:
		p = []uint16{0x0FFF, 0x1010, 0xBEDF, 0xBEDD, 0, 0xFFFF, 0x0123}[t.Intn(7)]
	}
	if p == 0xBEDE || p == 0x1000 {
		p ^= 1
	}
	return p
}

func (s *pktSpec) String() string {
	return fmt.Sprintf("pkt{v%d m=%v pt=%d seq=%d cc=%d prof=%d exts=%d payload=%d pad=%d}",
		s.version, s.marker, s.pt, s.seq, len(s.csrc), s.profile, len(s.exts), len(s.payload), s.padSize)
}

// shape is a coarse abstraction of the packet used for state fingerprints.
func (s *pktSpec) shape() uint64 {
	h := uint64(len(s.csrc)) | uint64(s.profile)<<8 | uint64(len(s.exts))<<12
	if len(s.payload) == 0 {
		h |= 1 << 20
	}
	if s.padSize > 0 {
		h |= 1 << 21
	}
	if s.extBodyLen()%4 == 0 {
		h |= 1 << 22
	}
	return h
}

func (s *pktSpec) extBodyLen() int {
	n := 0
	for _, e := range s.exts {
		switch s.profile {
		case profOneByte:
			n += 1 + len(e.val)
		case profTwoByte:
			n += 2 + len(e.val)
		case profLegacy:
			n += len(e.val)
		}
	}
	return n
}

// layout gives the model's byte regions of the canonical encoding.
type layout struct{ fixed, csrcEnd, extHdrEnd, extBodyEnd, extEnd, payloadEnd, total int }

func (s *pktSpec) layout() layout {
	var l layout
	l.fixed = 12
	l.csrcEnd = 12 + 4*len(s.csrc)
	l.extHdrEnd, l.extBodyEnd, l.extEnd = l.csrcEnd, l.csrcEnd, l.csrcEnd
	if s.profile != profNone {
		l.extHdrEnd = l.csrcEnd + 4
		l.extBodyEnd = l.extHdrEnd + s.extBodyLen()
		l.extEnd = l.extHdrEnd + (s.extBodyLen()+3)/4*4
	}
	l.payloadEnd = l.extEnd + len(s.payload)
	l.total = l.payloadEnd + int(s.padSize)
	return l
}

func (l layout) region(i int) string {
	switch {
	case i < l.fixed:
		return "fixed-header"
	case i < l.csrcEnd:
		return "csrc"
	case i < l.extHdrEnd:
		return "ext-header"
	case i < l.extBodyEnd:
		return "ext-body"
	case i < l.extEnd:
		return "ext-padding"
	case i < l.payloadEnd:
		return "payload"
	case i < l.total-1:
		return "rtp-padding-fill"
	case i == l.total-1:
		return "rtp-padding-count"
	}
	return "beyond"
}

// build constructs the real rtp.Packet through the public API. Extensions go through
// SetExtension on a header whose profile is preset, so that the library validates them.
func (s *pktSpec) build(c *core.Ctx) (*rtp.Packet, bool) { return s.buildx(c, false) }

// buildx: with nilEmpty, zero-length extension values are handed to SetExtension as nil slices.
func (s *pktSpec) buildx(c *core.Ctx, nilEmpty bool) (*rtp.Packet, bool) {
	p := &rtp.Packet{}
	p.Version = s.version
	p.Marker = s.marker
	p.PayloadType = s.pt
	p.SequenceNumber = s.seq
	p.Timestamp = s.ts
	p.SSRC = s.ssrc
	if s.csrc != nil {
		p.CSRC = append([]uint32{}, s.csrc...)
	}
	ok := true
	if s.profile != profNone {
		p.Extension = true
		switch s.profile {
		case profOneByte:
			p.ExtensionProfile = 0xBEDE
		case profTwoByte:
			p.ExtensionProfile = 0x1000
		case profLegacy:
			p.ExtensionProfile = s.legacyProfile
		}
		for _, e := range s.exts {
			e := e
			var err error
			val := append([]byte{}, e.val...)
			if nilEmpty && len(val) == 0 {
				val = nil
			}
			if s.aliasScratch != nil && len(e.val) > 0 && len(e.val) <= len(s.aliasScratch) {
				val = s.aliasScratch[:len(e.val)]
			}
			if c.Guard("rtp.Header.SetExtension", func() { err = p.SetExtension(e.id, val) }) || err != nil {
				ok = false
			}
		}
	}
	p.Payload = append([]byte{}, s.payload...)
	if s.padSize > 0 {
		p.Padding = true
		p.PaddingSize = s.padSize
	}
	return p, ok
}

// encode is the model's own canonical RFC 3550 / RFC 8285 encoder (never calls pion/rtp).
func (s *pktSpec) encode() []byte {
	l := s.layout()
	b := make([]byte, l.total)
	b[0] = s.version<<6 | uint8(len(s.csrc))
	if s.padSize > 0 {
		b[0] |= 0x20
	}
	if s.profile != profNone {
		b[0] |= 0x10
	}
	b[1] = s.pt
	if s.marker {
		b[1] |= 0x80
	}
	binary.BigEndian.PutUint16(b[2:], s.seq)
	binary.BigEndian.PutUint32(b[4:], s.ts)
	binary.BigEndian.PutUint32(b[8:], s.ssrc)
	n := 12
	for _, x := range s.csrc {
		binary.BigEndian.PutUint32(b[n:], x)
		n += 4
	}
	if s.profile != profNone {
		prof := uint16(0xBEDE)
		if s.profile == profTwoByte {
			prof = 0x1000
		} else if s.profile == profLegacy {
			prof = s.legacyProfile
		}
		binary.BigEndian.PutUint16(b[n:], prof)
		binary.BigEndian.PutUint16(b[n+2:], uint16((l.extEnd-l.extHdrEnd)/4))
		n += 4
		for _, e := range s.exts {
			switch s.profile {
			case profOneByte:
				b[n] = e.id<<4 | uint8(len(e.val)-1)
				n++
			case profTwoByte:
				b[n] = e.id
				b[n+1] = uint8(len(e.val))
				n += 2
			}
			n += copy(b[n:], e.val)
		}
		n = l.extEnd
	}
	n += copy(b[n:], s.payload)
	if s.padSize > 0 {
		b[l.total-1] = s.padSize
	}
	return b
}

// ---- independent RFC 3550 / RFC 8285 reader (the model's view of a wire image) ----

type parsedRTP struct {
	version       uint8
	padding, x, m bool
	pt            uint8
	seq           uint16
	ts, ssrc      uint32
	csrc          []uint32
	profile       uint16
	extBlock      []byte // the extension block body (after the 4-byte extension header)
	exts          []extEl
	hdrLen        int
	payload       []byte
	padSize       int
}

// parseRTP reads a wire image by the RFCs; ok is false when the image is malformed
// (too short anywhere, padding count 0 or larger than what follows the header).
func parseRTP(b []byte) (p parsedRTP, ok bool) {
	if len(b) < 12 {
		return p, false
	}
	p.version = b[0] >> 6
	p.padding = b[0]&0x20 != 0
	p.x = b[0]&0x10 != 0
	cc := int(b[0] & 0x0F)
	p.m = b[1]&0x80 != 0
	p.pt = b[1] & 0x7F
	p.seq = binary.BigEndian.Uint16(b[2:])
	p.ts = binary.BigEndian.Uint32(b[4:])
	p.ssrc = binary.BigEndian.Uint32(b[8:])
	n := 12 + 4*cc
	if len(b) < n {
		return p, false
	}
	for i := 0; i < cc; i++ {
		p.csrc = append(p.csrc, binary.BigEndian.Uint32(b[12+4*i:]))
	}
	if p.x {
		if len(b) < n+4 {
			return p, false
		}
		p.profile = binary.BigEndian.Uint16(b[n:])
		words := int(binary.BigEndian.Uint16(b[n+2:]))
		n += 4
		if len(b) < n+4*words {
			return p, false
		}
		p.extBlock = b[n : n+4*words]
		n += 4 * words
		blk := p.extBlock
		switch {
		case p.profile == 0xBEDE:
			for i := 0; i < len(blk); {
				if blk[i] == 0 {
					i++
					continue
				}
				id := blk[i] >> 4
				l := int(blk[i]&0x0F) + 1
				if id == 15 {
					break
				}
				i++
				if i+l > len(blk) {
					return p, false
				}
				p.exts = append(p.exts, extEl{id, blk[i : i+l]})
				i += l
			}
		case p.profile == 0x1000:
			for i := 0; i < len(blk); {
				if blk[i] == 0 {
					i++
					continue
				}
				if i+2 > len(blk) {
					return p, false
				}
				id := blk[i]
				l := int(blk[i+1])
				i += 2
				if i+l > len(blk) {
					return p, false
				}
				p.exts = append(p.exts, extEl{id, blk[i : i+l]})
				i += l
			}
		default:
			p.exts = append(p.exts, extEl{0, blk})
		}
	}
	p.hdrLen = n
	end := len(b)
	if p.padding {
		if end <= n {
			return p, false
		}
		p.padSize = int(b[end-1])
		if p.padSize == 0 || p.padSize > end-n {
			return p, false
		}
		end -= p.padSize
	}
	p.payload = b[n:end]
	return p, true
}
