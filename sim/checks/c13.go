package checks

import (
	"bytes"
	"fmt"

	"github.com/pion/rtp/codecs"
	"github.com/pion/rtp/codecs/av1/frame"
	"github.com/pion/rtp/codecs/av1/obu"

	"verifsim/core"
)

// C13 — AV1 packetization is lossless and obeys the AV1 RTP aggregation rules.
//
// Fault-free configuration of the codec-level world: a real AV1Payloader streams
// temporal units over a FIFO wire; both receivers run on the same payload stream: a
// long-lived AV1Depacketizer (fragment buffer carried from packet to packet, fed from
// recycled buffers) and AV1Packet (fresh per packet) + one frame.AV1.

func init() {
	register(&Check{
		ID:      "C13",
		Tenants: func(c *core.Ctx, i int) tenant { return tenantCodec(c, kAV1Dep, kAV1Pkt) }, Level: "exploration", Configs: []string{"clean"},
		Run:         runC13,
		QuickRuns:   120_000,
		ThoroughSec: 600,
		Rule: "one run = 1-8 temporal units of 1-8 OBUs (all 16 types incl. temporal delimiters and tile lists, optional extension header with drawn temporal/spatial id and reserved bits, " +
			"size field on all OBUs or omitted on the last, payload sizes {0,1,126-129,16382-16385,mtu-3..mtu+1,..4*mtu}) through a real AV1Payloader at an MTU >= 2 (biased 2-64, 1200) to a " +
			"long-lived AV1Depacketizer and to AV1Packet+frame.AV1; fingerprint = hash(mtu class, per-OBU (type class, ext, size class relative to mtu) truncated to 12, #packets class); " +
			"non-trivial = an OBU was fragmented across packets or several OBUs shared a packet",
		Real: []string{"codecs.AV1Payloader.Payload", "codecs.AV1Depacketizer.Unmarshal", "codecs.AV1Packet.Unmarshal", "frame.AV1.ReadFrames", "obu.WriteToLeb128", "obu.ReadLeb128", "obu.ParseOBUHeader", "obu.Header.Marshal"},
		Stub: []string{"OBU source", "FIFO wire + receive buffer pool", "independent aggregation-header / OBU-element reader", "independent LEB128 and OBU writer"},
		Assumptions: []string{
			"LEB128 and OBU-header inverses are checked on the values the traffic produces (sampling; the property's 'all 2^16 byte pairs' is an enumeration this family does not do)",
			"only the last OBU of a temporal unit may omit its size field",
		},
		ProbeNames: []string{"one-byte-free-W0", "obu-ends-at-mtu", "size-127-128-split", "three-layer-ids-in-a-row", "last-obu-without-size", "zero-length-obu", "fragmented-obu", "aggregated-packet", "layered-obu-tail"},
	})
}

func runC13(c *core.Ctx) {
	t := c.T
	mtu := 2 + []int{10, 0, 1, 2, 5, 30, 62, 1198}[t.Intn(8)] + t.Intn(4)
	if t.Chance(1, 16) {
		// jumbo MTUs: the only place where an element needs a 3-byte LEB128 length (>= 16384 bytes)
		mtu = []int{16384, 16390, 20000, 65535}[t.Intn(4)] + t.Intn(8)
		if mtu > 65535 {
			mtu = 65535
		}
		c.Probe("jumbo-mtu")
	}
	pay := &codecs.AV1Payloader{}
	dep := &codecs.AV1Depacketizer{}
	var fr frame.AV1
	nTU := 1 + t.Intn(8)
	type tu struct {
		obus    []av1OBU
		wantDep []byte   // AV1Depacketizer output over the unit
		wantFr  [][]byte // frame.AV1 output over the unit
		nPkts   int
	}
	var tus []tu
	var gotDep []byte
	var gotFr [][]byte
	cur := -1
	nontrivial := false
	var fp []uint64
	varyMTU := mtu < 2000 && t.Chance(1, 6)
	c.Logf("mtu=%d temporal units=%d varyMTU=%v", mtu, nTU, varyMTU)
	finish := func(k int) {
		if k < 0 || len(c.Viol) > 0 {
			return
		}
		u := tus[k]
		if !bytes.Equal(gotDep, u.wantDep) {
			c.Violate("lossless", "C13/lossless/depacketizer-differs", "temporal unit %d (%d OBUs, mtu %d, %d packets): AV1Depacketizer produced %d bytes, expected %d", k, len(u.obus), mtu, u.nPkts, len(gotDep), len(u.wantDep))
			return
		}
		same := len(gotFr) == len(u.wantFr)
		for i := 0; same && i < len(gotFr); i++ {
			same = bytes.Equal(gotFr[i], u.wantFr[i])
		}
		if !same {
			c.Violate("lossless", "C13/lossless/frame-assembler-differs", "temporal unit %d (mtu %d): AV1Packet+frame.AV1 produced %d OBUs, expected %d", k, mtu, len(gotFr), len(u.wantFr))
		}
	}
	streamWorld(c, nTU, func(k int) [][]byte {
		if varyMTU && k > 0 {
			mtu = 2 + []int{10, 0, 1, 2, 5, 30, 62, 1198}[t.Intn(8)] + t.Intn(4) // the path MTU changed between units
		}
		obus, stream := genAV1TU(t, mtu)
		if t.Chance(1, 6) {
			// feedback-aimed unit: the open packet is left with a LEB128-boundary number of free bytes
			measure := func(b []byte) int {
				var out [][]byte
				if c.Guard("codecs.AV1Payloader.Payload(measure)", func() { out = (&codecs.AV1Payloader{}).Payload(uint16(mtu), b) }) || len(out) == 0 {
					return -1
				}
				return len(out[len(out)-1])
			}
			if o2, s2, ok := genAV1Aimed(t, mtu, measure); ok {
				obus, stream = o2, s2
				c.Probe("aimed-free-space")
			}
		}
		var u tu
		u.obus = obus
		layerRun, lastT, lastS := 0, byte(255), byte(255)
		for i := range obus {
			o := &obus[i]
			if len(fp) < 12 {
				sc := uint64(3)
				switch {
				case len(o.payload) == 0:
					sc = 0
				case len(o.payload) < mtu-3:
					sc = 1
				case len(o.payload) <= mtu+1:
					sc = 2
				}
				fp = append(fp, uint64(o.typ)<<4|b2u(o.ext)<<3|sc)
			}
			if len(o.payload) == 0 {
				c.Probe("zero-length-obu")
			}
			if !o.hasSize {
				c.Probe("last-obu-without-size")
			}
			if o.ext && (o.tid != lastT || o.sid != lastS) {
				layerRun++
				lastT, lastS = o.tid, o.sid
				if layerRun >= 3 {
					c.Probe("three-layer-ids-in-a-row")
				}
			}
			// OBU header and LEB128 inverses on the traffic's values (sampling)
			c13inverses(c, o)
			if o.dropped() {
				continue
			}
			u.wantDep = append(u.wantDep, o.withSize()...)
			u.wantFr = append(u.wantFr, o.sizeless())
		}
		var ps [][]byte
		if c.Guard("codecs.AV1Payloader.Payload", func() { ps = pay.Payload(uint16(mtu), spare(t, stream)) }) {
			return nil
		}
		u.nPkts = len(ps)
		tus = append(tus, u)
		if c.Verbose {
			desc := ""
			for _, o := range obus {
				desc += fmt.Sprintf(" type%d", o.typ)
				if o.ext {
					desc += fmt.Sprintf("(t%d,s%d)", o.tid, o.sid)
				}
				desc += fmt.Sprintf("/%d", len(o.payload))
				if !o.hasSize {
					desc += "/nosize"
				}
			}
			c.Logf("TU %d OBUs:%s", k, desc)
		}
		c.Logf("TU %d: %d OBUs, %d stream bytes -> %d payloads %s", k, len(obus), len(stream), len(ps), heads(ps))
		if len(ps) == 0 && len(u.wantFr) > 0 {
			c.Violate("lossless", "C13/no-payload-for-unit", "temporal unit %d with %d transmittable OBUs produced no payload at MTU %d", k, len(u.wantFr), mtu)
		}
		if c13rules(c, ps, mtu) {
			nontrivial = true
		}
		return ps
	}, func(d datagram, buf []byte) {
		if len(c.Viol) > 0 {
			return
		}
		if d.frame != cur {
			finish(cur)
			cur, gotDep, gotFr = d.frame, nil, nil
		}
		var out []byte
		var err error
		if c.Guard("codecs.AV1Depacketizer.Unmarshal", func() { out, err = dep.Unmarshal(buf) }) {
			return
		}
		if err != nil {
			c.Violate("decode", "C13/decode/depacketizer-error-on-genuine-payload", "AV1Depacketizer rejected a payload of the real payloader: %v (payload %.6x… %d bytes, mtu %d)", err, d.b, len(d.b), mtu)
			return
		}
		gotDep = append(gotDep, out...)
		pkt := &codecs.AV1Packet{}
		var obus [][]byte
		if c.Guard("codecs.AV1Packet.Unmarshal", func() {
			if _, err = pkt.Unmarshal(buf); err == nil {
				obus, err = fr.ReadFrames(pkt)
			}
		}) {
			return
		}
		if err != nil {
			c.Violate("decode", "C13/decode/av1packet-error-on-genuine-payload", "AV1Packet/frame.AV1 rejected a payload of the real payloader: %v", err)
			return
		}
		for _, o := range obus {
			gotFr = append(gotFr, append([]byte{}, o...))
		}
	})
	finish(cur)
	if nontrivial {
		c.Fingerprint(append([]uint64{uint64(mtu / 4)}, fp...)...)
	}
}

// c13rules checks the aggregation rules on the payloads of one Payload call with the
// model's own reader; it reports whether the call was non-trivial.
func c13rules(c *core.Ctx, ps [][]byte, mtu int) bool {
	nontrivial := false
	prevY := false
	// layer ids of the OBU whose fragments run on into the next payload: its later fragments carry no header, but the
	// OBU they belong to still shares the packet with whatever follows (carryExt: the extension octet itself is still to come)
	carryHave, carryExt, carryT, carryS := false, false, byte(0), byte(0)
	for i, p := range ps {
		if len(p) > mtu {
			c.Violate("rules", "C13/rules/payload-exceeds-mtu", "payload %d is %d bytes, MTU %d", i, len(p), mtu)
			return nontrivial
		}
		r := parseAV1Payload(p)
		if !r.ok {
			c.Violate("rules", "C13/rules/malformed-payload", "payload %d of %d is not a well-formed AV1 RTP payload: %s (%.8x… %d bytes)", i, len(ps), r.why, p, len(p))
			return nontrivial
		}
		if len(p) == mtu {
			c.Probe("obu-ends-at-mtu")
		}
		if r.w == 0 && len(p) == mtu-1 {
			c.Probe("one-byte-free-W0")
		}
		if len(r.elems) == 0 {
			c.Violate("rules", "C13/rules/no-element", "payload %d carries no OBU element", i)
			return nontrivial
		}
		if r.z != prevY {
			c.Violate("rules", "C13/rules/z-y-chain", "payload %d has Z=%v but the previous payload had Y=%v", i, r.z, prevY)
			return nontrivial
		}
		prevY = r.y
		if r.z || r.y {
			nontrivial = true
			c.Probe("fragmented-obu")
		}
		if len(r.elems) > 1 {
			nontrivial = true
			c.Probe("aggregated-packet")
		}
		tid, sid, have := byte(0), byte(0), false
		for j, e := range r.elems {
			if len(e) == 0 {
				c.Violate("rules", "C13/rules/empty-element", "payload %d element %d is empty", i, j)
				return nontrivial
			}
			if len(e) == 127 || len(e) == 128 {
				c.Probe("size-127-128-split")
			}
			if j == 0 && r.z {
				// continuation of the previous packet's OBU: no header here, the ids are those of the OBU's first fragment
				if carryExt {
					carryHave, carryExt, carryT, carryS = true, false, e[0]>>5, e[0]>>3&3
				}
				if carryHave {
					tid, sid, have = carryT, carryS, true
					c.Probe("layered-obu-tail")
				}
				if !(len(r.elems) == 1 && r.y) {
					carryHave, carryExt = false, false
				}
				continue
			}
			carryHave, carryExt = false, false
			if e[0]&0x80 != 0 {
				c.Violate("rules", "C13/rules/forbidden-bit", "payload %d element %d begins with an OBU header whose forbidden bit is set", i, j)
				return nontrivial
			}
			if e[0]&0x02 != 0 {
				c.Violate("rules", "C13/rules/size-flag-not-cleared", "payload %d element %d begins an OBU whose obu_has_size_field is set", i, j)
				return nontrivial
			}
			typ := e[0] >> 3 & 0x0F
			if typ == 2 || typ == 8 {
				c.Violate("rules", "C13/rules/td-or-tile-list-transmitted", "payload %d element %d is an OBU of type %d", i, j, typ)
				return nontrivial
			}
			if e[0]&0x04 != 0 && len(e) >= 2 {
				tt, ss := e[1]>>5, e[1]>>3&3
				if have && (tt != tid || ss != sid) {
					c.Violate("rules", "C13/rules/mixed-layer-ids", "payload %d holds OBUs with (temporal,spatial) ids (%d,%d) and (%d,%d)", i, tid, sid, tt, ss)
					return nontrivial
				}
				tid, sid, have = tt, ss, true
				if j == len(r.elems)-1 && r.y {
					carryHave, carryT, carryS = true, tt, ss
				}
			} else if e[0]&0x04 != 0 && j == len(r.elems)-1 && r.y {
				carryExt = true
			}
		}
	}
	if prevY {
		c.Violate("rules", "C13/rules/last-packet-y", "the last payload of the call has Y=1")
	}
	return nontrivial
}

// c13inverses: LEB128 write/read and OBU header parse/marshal are mutually inverse on the
// values of this OBU.
func c13inverses(c *core.Ctx, o *av1OBU) {
	// the traffic's own values, plus one drawn value at or around a 7-bit boundary of the 32-bit range
	// (sampling with boundary bias; the enumeration the property mentions is not done by this family)
	edges := []uint64{0, 1 << 7, 1 << 14, 1 << 21, 1 << 28, 1<<32 - 1, 1<<32 - 2}
	drawn := edges[c.T.Intn(len(edges))]
	switch c.T.Intn(4) {
	case 1:
		if drawn > 0 {
			drawn--
		}
	case 2:
		if drawn < 1<<32-1 {
			drawn++
		}
	case 3:
		drawn = c.T.Draw(1 << 32)
	}
	for _, v := range []uint64{uint64(len(o.payload)), uint64(len(o.payload)) + 127, uint64(len(o.payload)) << 7, uint64(o.typ)<<28 | uint64(len(o.payload)), drawn} {
		v &= 0xFFFFFFFF
		var enc []byte
		var dec, n uint
		var err error
		if c.Guard("obu.WriteToLeb128", func() { enc = obu.WriteToLeb128(uint(v)); dec, n, err = obu.ReadLeb128(enc) }) {
			return
		}
		if err != nil || uint64(dec) != v || int(n) != len(enc) || !bytes.Equal(enc, leb128(v)) {
			c.Violate("leb128", "C13/leb128/not-inverse", "LEB128(%d) = %x reads back as %d (%d bytes, err %v); model encoding %x", v, enc, dec, n, err, leb128(v))
			return
		}
	}
	// one drawn OBU header byte pair: parse then marshal must give the bytes back (forbidden bit clear)
	{
		raw := []byte{byte(c.T.Draw(128)), byte(c.T.Draw(256))}
		var hh *obu.Header
		var herr error
		var back []byte
		if !c.Guard("obu.ParseOBUHeader", func() {
			hh, herr = obu.ParseOBUHeader(raw)
			if herr == nil {
				back = hh.Marshal()
			}
		}) {
			want := raw[:1]
			if raw[0]&0x04 != 0 {
				want = raw[:2]
			}
			if herr != nil || !bytes.Equal(back, want) {
				c.Violate("obu-header", "C13/obu-header/not-inverse", "OBU header bytes %x parse (err %v) and marshal back to %x", want, herr, back)
				return
			}
			if byte(hh.Type) != raw[0]>>3&0x0F || hh.HasSizeField != (raw[0]&2 != 0) || hh.Reserved1Bit != (raw[0]&1 != 0) ||
				(hh.ExtensionHeader != nil && (hh.ExtensionHeader.TemporalID != raw[1]>>5 || hh.ExtensionHeader.SpatialID != raw[1]>>3&3 || hh.ExtensionHeader.Reserved3Bits != raw[1]&7)) {
				c.Violate("obu-header", "C13/obu-header/fields", "OBU header bytes %x decode to %+v", want, *hh)
				return
			}
		}
	}
	hdr := o.header(o.hasSize)
	var h *obu.Header
	var err error
	var back []byte
	if c.Guard("obu.ParseOBUHeader", func() {
		h, err = obu.ParseOBUHeader(hdr)
		if err == nil {
			back = h.Marshal()
		}
	}) {
		return
	}
	if err != nil || !bytes.Equal(back, hdr) {
		c.Violate("obu-header", "C13/obu-header/not-inverse", "OBU header %x parses (err %v) and marshals back to %x", hdr, err, back)
		return
	}
	if byte(h.Type) != o.typ || h.HasSizeField != o.hasSize || h.Reserved1Bit != o.res1 || (h.ExtensionHeader != nil) != o.ext ||
		(o.ext && (h.ExtensionHeader.TemporalID != o.tid || h.ExtensionHeader.SpatialID != o.sid || h.ExtensionHeader.Reserved3Bits != o.extRes)) {
		c.Violate("obu-header", "C13/obu-header/fields", "OBU header %x decodes to %+v", hdr, *h)
	}
	_ = fmt.Sprint
}
