package checks

import (
	"fmt"
	"strings"

	"github.com/pion/rtp"
	"github.com/pion/rtp/codecs"
	"github.com/pion/rtp/codecs/av1/frame"

	"verifsim/core"
)

// codec kinds of the codec-level world (real payloader -> wire -> real depacketizer)
const (
	kH264 = iota
	kH264AVC
	kH265
	kH265DONL
	kVP8
	kVP9
	kVP9Flex
	kAV1Dep
	kAV1Pkt
	kOpus
	kG711
	kG722
	nKinds
)

var kindNames = []string{"H264", "H264-AVC", "H265", "H265-DONL", "VP8", "VP9", "VP9-flex", "AV1Depacketizer", "AV1Packet+frame", "Opus", "G711", "G722"}

// payloaderOpts describes the drawn option settings of a payloader (so that a shadow
// instance with identical options can be built).
type payloaderOpts struct {
	kind         int
	disableStapA bool
	addDONL      bool
	skipAgg      bool
	vp8PicID     bool
	vp9Flex      bool
	vp9Init      uint16
}

func drawPayloaderOpts(t *core.Tape, kind int) payloaderOpts {
	o := payloaderOpts{kind: kind}
	switch kind {
	case kH264, kH264AVC:
		o.disableStapA = t.Chance(1, 3)
	case kH265:
		o.skipAgg = t.Chance(1, 3)
	case kH265DONL:
		o.addDONL = true
		o.skipAgg = t.Chance(1, 3)
	case kVP8:
		o.vp8PicID = t.Chance(2, 3)
	case kVP9:
		o.vp9Init = drawPicID(t)
	case kVP9Flex:
		o.vp9Flex = true
		o.vp9Init = drawPicID(t)
	}
	return o
}

func drawPicID(t *core.Tape) uint16 {
	switch t.Weighted(2, 2, 1, 1) {
	case 1:
		return uint16(0x7FFF - t.Intn(4))
	case 2:
		return uint16(t.Draw(1 << 16))
	case 3:
		return uint16(127 + t.Intn(3))
	}
	return 0
}

func (o payloaderOpts) build() rtp.Payloader {
	switch o.kind {
	case kH264, kH264AVC:
		return &codecs.H264Payloader{DisableStapA: o.disableStapA}
	case kH265, kH265DONL:
		return &codecs.H265Payloader{AddDONL: o.addDONL, SkipAggregation: o.skipAgg}
	case kVP8:
		return &codecs.VP8Payloader{EnablePictureID: o.vp8PicID}
	case kVP9, kVP9Flex:
		init := o.vp9Init
		return &codecs.VP9Payloader{FlexibleMode: o.vp9Flex, InitialPictureIDFn: func() uint16 { return init }}
	case kAV1Dep, kAV1Pkt:
		return &codecs.AV1Payloader{}
	case kOpus:
		return &codecs.OpusPayloader{}
	case kG711:
		return &codecs.G711Payloader{}
	case kG722:
		return &codecs.G722Payloader{}
	}
	return nil
}

// apply writes the option fields into a live payloader (they are plain exported fields that an
// application may change between calls).
func (o payloaderOpts) apply(p rtp.Payloader) {
	switch q := p.(type) {
	case *codecs.H264Payloader:
		q.DisableStapA = o.disableStapA
	case *codecs.H265Payloader:
		q.AddDONL, q.SkipAggregation = o.addDONL, o.skipAgg
	case *codecs.VP8Payloader:
		q.EnablePictureID = o.vp8PicID
	case *codecs.VP9Payloader:
		q.FlexibleMode = o.vp9Flex
	}
}

// toggle flips one drawn option; reports whether anything changed.
func (o *payloaderOpts) toggle(t *core.Tape) bool {
	switch o.kind {
	case kH264, kH264AVC:
		o.disableStapA = !o.disableStapA
	case kH265, kH265DONL:
		if t.Bool() {
			o.addDONL = !o.addDONL
		} else {
			o.skipAgg = !o.skipAgg
		}
	case kVP8:
		o.vp8PicID = !o.vp8PicID
	case kVP9, kVP9Flex:
		o.vp9Flex = !o.vp9Flex
	default:
		return false
	}
	return true
}

func (o payloaderOpts) String() string {
	return fmt.Sprintf("%s{stapAoff=%v donl=%v skipAgg=%v picid=%v flex=%v init=%d}", kindNames[o.kind], o.disableStapA, o.addDONL, o.skipAgg, o.vp8PicID, o.vp9Flex, o.vp9Init)
}

// minMTU is the smallest MTU at which the codec can make progress on any input.
func (o payloaderOpts) minMTU() int {
	switch o.kind {
	case kH264, kH264AVC:
		return 3
	case kH265:
		return 4
	case kH265DONL:
		return 6
	case kVP8:
		return 5
	case kVP9:
		return 12
	case kVP9Flex:
		return 4
	case kAV1Dep, kAV1Pkt:
		return 2
	}
	return 1
}

// mediaGen generates one Payload-call worth of structured media for a kind.
type mediaGen struct {
	kind      int
	h264State int
	prev      []byte
	// wellFormed: the world's oracle assumes frames of the codec's own grammar (C15), so a sibling frame may
	// only be an exact repeat: a flipped bit can turn a NAL header into type 24-29 (a stray FU-A/STAP-A payload)
	wellFormed bool
}

// next returns the next frame; one frame in twelve is the previous frame again, or differs from it in one
// byte or in its last byte (consecutive frames of real streams are often near-identical).
func (g *mediaGen) next(t *core.Tape, mtu int) []byte {
	if g.prev != nil && g.h264State == 0 && len(g.prev) > 2 && len(g.prev) < 20000 && t.Chance(1, 12) {
		m := append([]byte(nil), g.prev...)
		how := t.Intn(3)
		if g.wellFormed {
			how = 0
		}
		switch how {
		case 1:
			m[t.Intn(len(m))] ^= 1 << uint(t.Intn(8))
		case 2:
			m = m[:len(m)-1]
		}
		return m
	}
	m := g.fresh(t, mtu)
	g.prev = m
	return m
}

func (g *mediaGen) fresh(t *core.Tape, mtu int) []byte {
	switch g.kind {
	case kH264, kH264AVC:
		return genH264AU(t, mtu, true, &g.h264State).annexb
	case kH265, kH265DONL:
		return annexB(t, genH265Units(t, mtu))
	case kVP8:
		return t.Bytes(nalSize(t, mtu, 1, 4))
	case kVP9, kVP9Flex:
		return genVP9Frame(t, mtu).data
	case kAV1Dep, kAV1Pkt:
		_, s := genAV1TU(t, mtu)
		return s
	}
	return t.Bytes(nalSize(t, mtu, 1, 0))
}

// ---- depacketizers ------------------------------------------------------------------

// av1PktAdapter drives the deprecated AV1Packet + frame.AV1 path behind the
// rtp.Depacketizer shape.
type av1PktAdapter struct {
	pkt   *codecs.AV1Packet // reused when reuse is true
	reuse bool
	fr    frame.AV1
}

func (a *av1PktAdapter) Unmarshal(b []byte) ([]byte, error) {
	p := a.pkt
	if !a.reuse || p == nil {
		p = &codecs.AV1Packet{}
		a.pkt = p
	}
	if _, err := p.Unmarshal(b); err != nil {
		return nil, err
	}
	obus, err := a.fr.ReadFrames(p)
	if err != nil {
		return nil, err
	}
	var out []byte
	for _, o := range obus {
		out = append(out, leb128(uint64(len(o)))...) // length-delimit so that the boundaries are comparable
		out = append(out, o...)
	}
	return out, nil
}
func (a *av1PktAdapter) IsPartitionHead(b []byte) bool         { return false }
func (a *av1PktAdapter) IsPartitionTail(m bool, _ []byte) bool { return m }

// zeroAllocSetter is the option all video depacketizers share (videoDepacketizer mixin).
type zeroAllocSetter interface{ SetZeroAllocation(bool) }

// newDepackOpt builds a depacketizer with the zero-allocation option drawn by the caller.
func newDepackOpt(kind int, zeroAlloc bool) rtp.Depacketizer {
	d := newDepack(kind)
	if z, ok := d.(zeroAllocSetter); ok && zeroAlloc {
		z.SetZeroAllocation(true)
	}
	return d
}

func newDepack(kind int) rtp.Depacketizer {
	switch kind {
	case kH264:
		return &codecs.H264Packet{}
	case kH264AVC:
		return &codecs.H264Packet{IsAVC: true}
	case kH265:
		return &codecs.H265Packet{}
	case kH265DONL:
		p := &codecs.H265Packet{}
		p.WithDONL(true)
		return p
	case kVP8:
		return &codecs.VP8Packet{}
	case kVP9, kVP9Flex:
		return &codecs.VP9Packet{}
	case kAV1Dep:
		return &codecs.AV1Depacketizer{}
	case kAV1Pkt:
		return &av1PktAdapter{}
	case kOpus:
		return &codecs.OpusPacket{}
	}
	return nil
}

type kv struct{ k, v string }

// describe renders the exported metadata of a per-packet depacketizer as ordered
// (field, value) pairs, so that reused-vs-fresh differences name the field.
func describe(d rtp.Depacketizer) []kv {
	f := func(k string, v interface{}) kv { return kv{k, fmt.Sprint(v)} }
	switch p := d.(type) {
	case *codecs.VP8Packet:
		return []kv{f("X", p.X), f("N", p.N), f("S", p.S), f("PID", p.PID), f("I", p.I), f("L", p.L), f("T", p.T), f("K", p.K),
			f("PictureID", p.PictureID), f("TL0PICIDX", p.TL0PICIDX), f("TID", p.TID), f("Y", p.Y), f("KEYIDX", p.KEYIDX), {"Payload", fmt.Sprintf("%x", p.Payload)}}
	case *codecs.VP9Packet:
		return []kv{f("I", p.I), f("P", p.P), f("L", p.L), f("F", p.F), f("B", p.B), f("E", p.E), f("V", p.V), f("Z", p.Z),
			f("PictureID", p.PictureID), f("TID", p.TID), f("U", p.U), f("SID", p.SID), f("D", p.D),
			f("PDiff", sl8(p.PDiff)), f("TL0PICIDX", p.TL0PICIDX), f("NS", p.NS), f("Y", p.Y), f("G", p.G), f("NG", p.NG),
			f("Width", fmt.Sprint(append([]uint16{}, p.Width...))), f("Height", fmt.Sprint(append([]uint16{}, p.Height...))),
			f("PGTID", sl8(p.PGTID)), f("PGU", fmt.Sprint(append([]bool{}, p.PGU...))), f("PGPDiff", sl88(p.PGPDiff)), {"Payload", fmt.Sprintf("%x", p.Payload)}}
	case *codecs.OpusPacket:
		return []kv{{"Payload", fmt.Sprintf("%x", p.Payload)}}
	case *codecs.H265Packet:
		return describeH265(p)
	}
	return nil
}

func sl8(s []uint8) string { return fmt.Sprint(append([]uint8{}, s...)) }
func sl88(s [][]uint8) string {
	var parts []string
	for _, x := range s {
		parts = append(parts, sl8(x))
	}
	return "[" + strings.Join(parts, " ") + "]"
}

func u16p(p *uint16) string {
	if p == nil {
		return "nil"
	}
	return fmt.Sprint(*p)
}

func describeH265(p *codecs.H265Packet) []kv {
	f := func(k string, v interface{}) kv { return kv{k, fmt.Sprint(v)} }
	switch q := p.Packet().(type) {
	case nil:
		return []kv{{"type", "nil"}}
	case *codecs.H265SingleNALUnitPacket:
		return []kv{{"type", "single"}, f("hdr", uint16(q.PayloadHeader())), {"donl", u16p(q.DONL())}, {"payload", fmt.Sprintf("%x", q.Payload())}}
	case *codecs.H265FragmentationUnitPacket:
		return []kv{{"type", "fu"}, f("hdr", uint16(q.PayloadHeader())), f("fu", uint8(q.FuHeader())), {"donl", u16p(q.DONL())}, {"payload", fmt.Sprintf("%x", q.Payload())}}
	case *codecs.H265AggregationPacket:
		out := []kv{{"type", "ap"}}
		if fu := q.FirstUnit(); fu != nil {
			out = append(out, kv{"first.donl", u16p(fu.DONL())}, f("first.size", fu.NALUSize()), kv{"first.nal", fmt.Sprintf("%x", fu.NalUnit())})
		}
		for i, u := range q.OtherUnits() {
			d := "nil"
			if u.DOND() != nil {
				d = fmt.Sprint(*u.DOND())
			}
			out = append(out, kv{fmt.Sprintf("other%d.dond", i), d}, f(fmt.Sprintf("other%d.size", i), u.NALUSize()), kv{fmt.Sprintf("other%d.nal", i), fmt.Sprintf("%x", u.NalUnit())})
		}
		return out
	case *codecs.H265PACIPacket:
		out := []kv{{"type", "paci"}, f("hdr", uint16(q.PayloadHeader())), f("A", q.A()), f("cType", q.CType()), f("PHSsize", q.PHSsize()),
			f("F0", q.F0()), f("F1", q.F1()), f("F2", q.F2()), f("Y", q.Y()), {"phes", fmt.Sprintf("%x", q.PHES())}, {"payload", fmt.Sprintf("%x", q.Payload())}}
		return out
	}
	return []kv{{"type", "unknown"}}
}

// firstDiff returns the name of the first differing field of two descriptions.
func firstDiff(a, b []kv) (string, string, string) {
	for i := range a {
		if i >= len(b) {
			return a[i].k, a[i].v, "<absent>"
		}
		if a[i] != b[i] {
			k := a[i].k
			if a[i].k != b[i].k {
				k = a[i].k + "|" + b[i].k
			}
			return k, a[i].v, b[i].v
		}
	}
	if len(b) > len(a) {
		return b[len(a)].k, "<absent>", b[len(a)].v
	}
	return "", "", ""
}

func typeName(d rtp.Depacketizer) string {
	switch d.(type) {
	case *codecs.VP8Packet:
		return "VP8Packet"
	case *codecs.VP9Packet:
		return "VP9Packet"
	case *codecs.OpusPacket:
		return "OpusPacket"
	case *codecs.H265Packet:
		return "H265Packet"
	case *codecs.H264Packet:
		return "H264Packet"
	case *codecs.AV1Depacketizer:
		return "AV1Depacketizer"
	case *av1PktAdapter:
		return "AV1Packet+frame"
	}
	return "?"
}
