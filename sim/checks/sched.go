//go:build verifsched

package checks

import (
	"fmt"
	"reflect"
	"sort"

	"github.com/pion/rtp/verifrt"

	"verifsim/core"
)

// The simulated thread scheduler. Simulated threads are real goroutines, each parked on
// its own channel; exactly one runs at a time; every verifrt.Yield (inserted before every
// statement of package rtp by verifinstr) returns control to the scheduler, which draws
// the next runnable thread from the tape. Mutexes of the instrumented package are
// simulated (a blocked thread is not runnable). Vector clocks per thread give an
// in-simulation happens-before race check over plain receiver-field accesses.

type thState int

const (
	thRunnable thState = iota
	thBlocked
	thDone
)

type simThread struct {
	id        int
	wake      chan struct{}
	state     thState
	vc        []uint32
	blockedOn interface{}
	inOp      bool
	fn        func(th *simThread)
	progress  int // preemption points passed (lock-step policy)
}

type mState struct {
	ord    int
	locked bool
	owner  int
	vc     []uint32
}

type rwState struct {
	ord     int
	writer  bool
	readers int
	wvc     []uint32 // released by writers
	rvc     []uint32 // join of reader releases
}

type varKey struct {
	p uintptr
	f int
}

type varState struct {
	wTid, wClock, wSite int
	rClock              []uint32
	rSite               []int
	sync                []uint32
}

type schedSim struct {
	c          *core.Ctx
	threads    []*simThread
	cur        *simThread
	den        uint64
	done       chan struct{}
	mutexes    map[*verifrt.Mutex]*mState
	rws        map[*verifrt.RWMutex]*rwState
	vars       map[varKey]*varState
	objOrd     map[uintptr]int
	deadlock   bool
	fp         uint64
	preemptOps int // preemptions that happened inside an operation
	switches   int
	yields     uint64
	// noAccessTracking: the interleaved-instances worlds compare results, not accesses
	noAccessTracking bool
	sinceSwitch      int
	livelock         bool
	lockstep         int // 0: drawn preemption; 1: lock-step at every point; n>1: lock-step, skipped with probability 1/n
}

func newSchedSim(c *core.Ctx, preemptDen uint64) *schedSim {
	s := &schedSim{c: c, den: preemptDen, done: make(chan struct{}, 1),
		mutexes: map[*verifrt.Mutex]*mState{}, rws: map[*verifrt.RWMutex]*rwState{},
		vars: map[varKey]*varState{}, objOrd: map[uintptr]int{}}
	return s
}

func (s *schedSim) install() {
	verifrt.YieldHook = s.yield
	if !s.noAccessTracking {
		// the happens-before check keys variables by object address: sound for C07's one long-lived
		// sequencer, not for worlds whose threads allocate short-lived objects (addresses are reused)
		verifrt.AccessHook = s.access
		verifrt.SyncHook = s.syncAccess
	}
	verifrt.LockHook = s.lock
	verifrt.UnlockHook = s.unlock
	verifrt.TryLockHook = s.tryLock
	verifrt.RWHook = s.rwop
}

func uninstallSched() {
	verifrt.YieldHook, verifrt.AccessHook, verifrt.SyncHook = nil, nil, nil
	verifrt.LockHook, verifrt.UnlockHook, verifrt.TryLockHook, verifrt.RWHook = nil, nil, nil, nil
}

func (s *schedSim) spawn(fn func(th *simThread)) *simThread {
	th := &simThread{id: len(s.threads), wake: make(chan struct{}, 1), fn: fn}
	s.threads = append(s.threads, th)
	return th
}

// run starts all spawned threads under the scheduler and returns when all have finished
// or a deadlock was detected.
func (s *schedSim) run() {
	n := len(s.threads)
	for _, th := range s.threads {
		th.vc = make([]uint32, n)
		th.vc[th.id] = 1
	}
	for _, th := range s.threads {
		th := th
		go func() {
			<-th.wake
			th.fn(th)
			th.state = thDone
			s.c.Ev("thread-done", uint64(th.id))
			s.pickAfterStop()
		}()
	}
	s.install()
	first := s.threads[s.c.T.Intn(n)]
	s.cur = first
	first.wake <- struct{}{}
	<-s.done
	s.cur = nil
	uninstallSched()
}

func (s *schedSim) countRunnable(me *simThread) int {
	n := 0
	for _, th := range s.threads {
		if th != me && th.state == thRunnable {
			n++
		}
	}
	return n
}

func (s *schedSim) nthRunnable(me *simThread, k int) *simThread {
	for _, th := range s.threads {
		if th != me && th.state == thRunnable {
			if k == 0 {
				return th
			}
			k--
		}
	}
	return nil
}

// pickAfterStop is called by a thread that cannot continue (finished or blocked): it
// hands the baton to a drawn runnable thread, or ends the simulation.
func (s *schedSim) pickAfterStop() {
	me := s.cur
	nr := s.countRunnable(me)
	if nr == 0 {
		for _, th := range s.threads {
			if th.state == thBlocked {
				s.deadlock = true
			}
		}
		s.done <- struct{}{}
		return
	}
	next := s.nthRunnable(me, s.c.T.Intn(nr))
	s.noteSwitch(next, -1)
	s.cur = next
	next.wake <- struct{}{}
}

func (s *schedSim) noteSwitch(next *simThread, site int) {
	s.switches++
	s.sinceSwitch = 0
	s.fp = core.Mix(s.fp ^ uint64(next.id)<<32 ^ uint64(uint32(site)))
}

// yield is the preemption point.
func (s *schedSim) yield(site int) {
	me := s.cur
	if me == nil {
		return
	}
	s.yields++
	s.sinceSwitch++
	me.progress++
	if s.yields > 40_000_000 {
		// every thread has had its turns (see the fairness rule below) and still nothing finishes
		s.c.Violate("progress", s.c.Property+"/no-progress/threads-spin-forever", "40 million preemption points passed without the simulated threads finishing, under a fair schedule: the operations do not terminate (livelock)")
		s.livelock = true
		s.cur = nil
		uninstallSched()
		s.done <- struct{}{}
		select {} // this goroutine, like the parked ones, is abandoned
	}
	nr := s.countRunnable(me)
	if nr == 0 {
		return
	}
	var next *simThread
	if s.sinceSwitch > 5000 {
		// fairness: a thread that has passed 5000 preemption points in a row (a spin-wait on something
		// another thread must do) is descheduled, as any real scheduler eventually does; round robin,
		// not drawn, so a replay tape of any length behaves the same
		next = s.nthRunnable(me, 0)
		for _, th := range s.threads {
			if th.id > me.id && th.state == thRunnable {
				next = th
				break
			}
		}
		s.c.Fault("forced-deschedule")
	} else if s.lockstep > 0 {
		// lock-step policy: at a preemption point (always, or with probability 1/lockstep... see below) run the
		// runnable thread that has made the least progress, so that all threads move through the same code
		// together: windows that need MANY threads inside them at once are met on purpose, not by luck
		if s.lockstep > 1 && s.c.T.Draw(uint64(s.lockstep)) == 0 {
			return
		}
		next = nil
		for _, th := range s.threads {
			if th != me && th.state == thRunnable && (next == nil || th.progress < next.progress) {
				next = th
			}
		}
		if next == nil || next.progress > me.progress {
			return
		}
	} else {
		if s.den <= 1 {
			return
		}
		if s.c.T.Draw(s.den) != 1 {
			return
		}
		next = s.nthRunnable(me, s.c.T.Intn(nr))
	}
	s.c.Ev("preempt", uint64(me.id), uint64(next.id), uint64(uint32(site)))
	if s.c.Verbose {
		s.c.Logf("  preempt T%d -> T%d at %s", me.id, next.id, siteName(site))
	}
	s.c.Fault("preempt")
	if me.inOp {
		s.preemptOps++
	}
	s.noteSwitch(next, site)
	s.cur = next
	next.wake <- struct{}{}
	<-me.wake
}

func siteName(site int) string {
	if site < 0 || site >= len(verifrt.Sites) {
		return "op-boundary"
	}
	st := verifrt.Sites[site]
	return fmt.Sprintf("%s:%d(%s)", st.File, st.Line, st.Func)
}

func siteFunc(site int) string {
	if site < 0 || site >= len(verifrt.Sites) {
		return "?"
	}
	return verifrt.Sites[site].Func
}

// block parks the current thread until it is made runnable again and scheduled.
func (s *schedSim) block(on interface{}) {
	me := s.cur
	me.state = thBlocked
	me.blockedOn = on
	s.c.Ev("block", uint64(me.id))
	s.c.Fault("lock_contention")
	s.pickAfterStop()
	<-me.wake // if this was a deadlock the goroutine stays parked forever (leaked on purpose)
}

func (s *schedSim) wakeWaiters(on interface{}) {
	for _, th := range s.threads {
		if th.state == thBlocked && th.blockedOn == on {
			th.state = thRunnable
			th.blockedOn = nil
		}
	}
}

func vcJoin(a, b []uint32) {
	for i := range b {
		if i < len(a) && b[i] > a[i] {
			a[i] = b[i]
		}
	}
}

func (s *schedSim) mstate(m *verifrt.Mutex) *mState {
	st := s.mutexes[m]
	if st == nil {
		st = &mState{ord: len(s.mutexes)}
		s.mutexes[m] = st
	}
	return st
}

func (s *schedSim) lock(m *verifrt.Mutex) bool {
	me := s.cur
	if me == nil {
		return false
	}
	st := s.mstate(m)
	for st.locked {
		if st.owner == me.id {
			// self-deadlock: never becomes runnable again
		}
		s.block(st)
	}
	st.locked, st.owner = true, me.id
	if st.vc != nil {
		vcJoin(me.vc, st.vc)
	}
	s.c.Ev("lock", uint64(me.id), uint64(st.ord))
	return true
}

func (s *schedSim) tryLock(m *verifrt.Mutex) (bool, bool) {
	me := s.cur
	if me == nil {
		return false, false
	}
	st := s.mstate(m)
	if st.locked {
		return true, false
	}
	st.locked, st.owner = true, me.id
	if st.vc != nil {
		vcJoin(me.vc, st.vc)
	}
	return true, true
}

func (s *schedSim) unlock(m *verifrt.Mutex) bool {
	me := s.cur
	if me == nil {
		return false
	}
	st := s.mstate(m)
	if !st.locked {
		panic("sync: unlock of unlocked mutex")
	}
	st.vc = append(st.vc[:0], me.vc...)
	me.vc[me.id]++
	st.locked = false
	s.c.Ev("unlock", uint64(me.id), uint64(st.ord))
	s.wakeWaiters(st)
	return true
}

func (s *schedSim) rwop(m *verifrt.RWMutex, op int) (bool, bool) {
	me := s.cur
	if me == nil {
		return false, false
	}
	st := s.rws[m]
	if st == nil {
		st = &rwState{ord: len(s.rws)}
		s.rws[m] = st
	}
	switch op {
	case 0, 4: // Lock / TryLock
		for st.writer || st.readers > 0 {
			if op == 4 {
				return true, false
			}
			s.block(st)
		}
		st.writer = true
		vcJoin(me.vc, st.wvc)
		vcJoin(me.vc, st.rvc)
	case 1: // Unlock
		if !st.writer {
			panic("sync: Unlock of unlocked RWMutex")
		}
		st.wvc = append(st.wvc[:0], me.vc...)
		me.vc[me.id]++
		st.writer = false
		s.wakeWaiters(st)
	case 2, 5: // RLock / TryRLock
		for st.writer {
			if op == 5 {
				return true, false
			}
			s.block(st)
		}
		st.readers++
		vcJoin(me.vc, st.wvc)
	case 3: // RUnlock
		if st.readers <= 0 {
			panic("sync: RUnlock of unlocked RWMutex")
		}
		if st.rvc == nil {
			st.rvc = make([]uint32, len(me.vc))
		}
		vcJoin(st.rvc, me.vc)
		me.vc[me.id]++
		st.readers--
		s.wakeWaiters(st)
	}
	s.c.Ev("rw", uint64(me.id), uint64(st.ord), uint64(op))
	return true, true
}

func (s *schedSim) vstate(obj interface{}, field int) *varState {
	v := reflect.ValueOf(obj)
	var p uintptr
	if v.Kind() == reflect.Ptr || v.Kind() == reflect.UnsafePointer {
		p = v.Pointer()
	}
	k := varKey{p, field}
	st := s.vars[k]
	if st == nil {
		if _, ok := s.objOrd[p]; !ok {
			s.objOrd[p] = len(s.objOrd)
		}
		n := len(s.threads)
		st = &varState{wTid: -1, rClock: make([]uint32, n), rSite: make([]int, n)}
		s.vars[k] = st
	}
	return st
}

func fieldName(f int) string {
	if f >= 0 && f < len(verifrt.Fields) {
		return verifrt.Fields[f]
	}
	return "?"
}

func (s *schedSim) race(field int, a, b int, kind string) {
	fa, fb := siteFunc(a), siteFunc(b)
	pair := []string{fa, fb}
	sort.Strings(pair)
	s.c.Violate("data-race", fmt.Sprintf("%s/data-race/%s/%s~%s", s.c.Property, fieldName(field), pair[0], pair[1]),
		"unordered conflicting accesses (%s) to field %q: %s and %s, no happens-before edge between them", kind, fieldName(field), siteName(a), siteName(b))
}

func (s *schedSim) access(obj interface{}, field int, write bool, site int) {
	me := s.cur
	if me == nil {
		return
	}
	st := s.vstate(obj, field)
	if st.wTid >= 0 && st.wTid != me.id && uint32(st.wClock) > me.vc[st.wTid] {
		if write {
			s.race(field, st.wSite, site, "write/write")
		} else {
			s.race(field, st.wSite, site, "write/read")
		}
	}
	if write {
		for u := range st.rClock {
			if u != me.id && st.rClock[u] > me.vc[u] {
				s.race(field, st.rSite[u], site, "read/write")
			}
		}
		st.wTid, st.wClock, st.wSite = me.id, int(me.vc[me.id]), site
		for u := range st.rClock {
			st.rClock[u] = 0
		}
	} else {
		st.rClock[me.id] = me.vc[me.id]
		st.rSite[me.id] = site
	}
}

func (s *schedSim) syncAccess(obj interface{}, field int, site int) {
	me := s.cur
	if me == nil {
		return
	}
	st := s.vstate(obj, field)
	if st.sync == nil {
		st.sync = make([]uint32, len(me.vc))
	}
	vcJoin(me.vc, st.sync)
	copy(st.sync, me.vc)
	me.vc[me.id]++
}
