package checks

import (
	"verifsim/core"
)

// datagram is what travels on the simulated wire. For codec-level checks b is an RTP
// payload in a simulator-owned envelope (frame id, index, marker); for packet-level
// checks b is a real RTP wire image.
type datagram struct {
	stream  int
	frame   int
	idx     int
	marker  bool
	b       []byte
	garbage bool // injected by the wire, not sent by a node
	damaged bool // corrupted or truncated in flight
	dup     bool
	sendSeq int
	meta    interface{}
}

// wireCfg holds per-run fault rates (numerators over 1000); drawn per run (swarm).
type wireCfg struct {
	loss, dup, reorder, corrupt, truncate, inject int
	base, jitter                                  int64 // ns
}

// drawWireCfg draws a fault mask and rates for a configuration:
// clean (FIFO, delays only) / lossy (+loss, dup, reorder) / hostile (+corrupt, truncate, inject).
func drawWireCfg(t *core.Tape, config string) wireCfg {
	w := wireCfg{base: int64(1000 + t.Intn(20_000_000)), jitter: int64(t.Intn(2_000_000))}
	rate := func() int {
		if !t.Chance(2, 3) { // each fault kind enabled in 2/3 of the runs
			return 0
		}
		return []int{20, 5, 50, 100, 200}[t.Intn(5)]
	}
	if config == "lossy" || config == "hostile" {
		w.loss, w.dup, w.reorder = rate(), rate(), rate()
	}
	if config == "hostile" {
		w.corrupt, w.truncate, w.inject = rate(), rate(), rate()
	}
	return w
}

type wire struct {
	c         *core.Ctx
	loop      *core.Loop
	cfg       wireCfg
	deliver   func(d datagram)
	sendSeq   int
	maxDeliv  int
	recent    [][]byte // a few genuine datagrams, as raw material for mutated injections
	lastArr   int64
	shortRot  int
	InFlight  int
	Delivered int
}

func newWire(c *core.Ctx, loop *core.Loop, cfg wireCfg, deliver func(d datagram)) *wire {
	return &wire{c: c, loop: loop, cfg: cfg, deliver: deliver, maxDeliv: -1}
}

func (w *wire) chance(permille int) bool {
	if permille == 0 {
		return false
	}
	return w.c.T.Chance(uint64(permille), 1000)
}

// Send hands a datagram to the wire, which owns a private copy from here on.
func (w *wire) Send(d datagram) {
	t := w.c.T
	d.b = append([]byte(nil), d.b...)
	d.sendSeq = w.sendSeq
	w.sendSeq++
	if len(w.recent) < 8 {
		w.recent = append(w.recent, d.b)
	} else {
		w.recent[d.sendSeq%8] = d.b
	}
	if w.chance(w.cfg.inject) {
		w.inject()
	}
	if w.chance(w.cfg.loss) {
		w.c.Fault("loss")
		w.c.Ev("drop", uint64(d.sendSeq))
		w.c.Logf("  wire: drop #%d (frame %d idx %d)", d.sendSeq, d.frame, d.idx)
		return
	}
	if w.chance(w.cfg.corrupt) && len(d.b) > 0 {
		d.b = append([]byte(nil), d.b...)
		if len(d.b) >= 2 && t.Chance(1, 4) {
			v := []uint16{0xFFFF, 0xFFFE, 0x0000, 0x8000, 0x7FFF, uint16(len(d.b))}[t.Intn(6)]
			i := t.Intn(len(d.b) - 1)
			d.b[i], d.b[i+1] = byte(v>>8), byte(v)
		}
		nflip := 1 + t.Intn(8)
		for i := 0; i < nflip; i++ {
			var pos int
			switch t.Weighted(3, 3, 1) {
			case 0:
				pos = t.Intn(len(d.b))
			case 1:
				pos = t.Intn(minI(16, len(d.b)))
			case 2:
				pos = len(d.b) - 1
			}
			d.b[pos] ^= 1 << uint(t.Intn(8))
		}
		d.damaged = true
		w.c.Fault("corrupt")
		w.c.Logf("  wire: corrupt #%d (%d flips)", d.sendSeq, nflip)
	}
	if w.chance(w.cfg.truncate) && len(d.b) > 0 {
		var cut int
		switch t.Weighted(2, 2, 2) {
		case 0:
			cut = t.Intn(len(d.b))
		case 1:
			cut = len(d.b) - 1
		case 2:
			cut = t.Intn(minI(20, len(d.b)))
		}
		d.b = d.b[:cut]
		d.damaged = true
		w.c.Fault("truncate")
		w.c.Logf("  wire: truncate #%d to %d bytes", d.sendSeq, cut)
	}
	delay := w.cfg.base
	if w.cfg.jitter > 0 {
		delay += int64(t.Draw(uint64(w.cfg.jitter)))
	}
	if w.chance(w.cfg.reorder) {
		delay += int64(t.Draw(uint64(4*w.cfg.base + 1)))
	} else {
		// FIFO unless reordering was drawn: never overtake the previous arrival
		if arr := w.c.Now + delay; arr < w.lastArr {
			delay = w.lastArr - w.c.Now
		}
		w.lastArr = w.c.Now + delay
	}
	w.schedule(d, delay)
	if w.chance(w.cfg.dup) {
		d2 := d
		d2.dup = true
		w.c.Fault("dup")
		w.schedule(d2, delay+int64(t.Draw(uint64(2*w.cfg.base+1))))
	}
}

func (w *wire) schedule(d datagram, delay int64) {
	w.InFlight++
	w.c.Fault("delay")
	w.loop.After(delay, func() {
		w.InFlight--
		w.Delivered++
		if !d.garbage {
			if d.sendSeq < w.maxDeliv {
				w.c.Fault("reorder") // counted when it actually overtook
			} else {
				w.maxDeliv = d.sendSeq
			}
		}
		w.c.Ev("deliver", uint64(d.sendSeq), core.HashBytes(d.b))
		w.deliver(d)
	})
}

var boundaryAlphabet = []byte{0x00, 0x01, 0x0F, 0x10, 0x1F, 0x20, 0x80, 0x90, 0xBE, 0xDE, 0xFF, 0x7F, 0x40, 0x1C, 0x18, 0x62}

// garbageBytes draws an injected datagram: random bytes, a boundary alphabet, short
// strings in rotation, nil/empty, or a mutated copy of an earlier genuine datagram.
func (w *wire) garbageBytes() []byte {
	t := w.c.T
	switch t.Weighted(3, 3, 2, 1, 3) {
	case 0:
		return t.Bytes(t.Intn(64))
	case 1:
		n := 1 + t.Intn(24)
		b := make([]byte, n)
		for i := range b {
			b[i] = boundaryAlphabet[t.Intn(len(boundaryAlphabet))]
		}
		return b
	case 2:
		w.shortRot++
		n := w.shortRot % 4
		b := make([]byte, n)
		for i := range b {
			b[i] = byte(t.Intn(256))
		}
		return b
	case 3:
		if t.Bool() {
			return nil
		}
		return []byte{}
	}
	if len(w.recent) == 0 {
		return t.Bytes(8)
	}
	src := w.recent[t.Intn(len(w.recent))]
	b := append([]byte(nil), src...)
	if len(b) == 0 {
		return b
	}
	switch t.Intn(6) {
	case 4, 5:
		// a 16-bit field somewhere in the packet takes a boundary value (length / size / count fields)
		if len(b) >= 2 {
			v := []uint16{0xFFFF, 0xFFFE, 0x0000, 0x0001, 0x8000, 0x7FFF, 0x00FF, 0x0100, uint16(len(b)), uint16(len(b) - 1)}[t.Intn(10)]
			i := t.Intn(len(b) - 1)
			b[i], b[i+1] = byte(v>>8), byte(v)
		}
	case 0:
		b[t.Intn(minI(4, len(b)))] = boundaryAlphabet[t.Intn(len(boundaryAlphabet))]
	case 1:
		b = b[:t.Intn(len(b))]
	case 2:
		b = append(b, t.Bytes(1+t.Intn(6))...)
	case 3:
		b[t.Intn(len(b))] ^= 1 << uint(t.Intn(8))
		if len(b) > 1 {
			b[len(b)-1] = byte(t.Intn(256))
		}
	}
	return b
}

func (w *wire) inject() {
	g := datagram{b: w.garbageBytes(), garbage: true, frame: -1, sendSeq: -1}
	w.c.Fault("inject")
	w.c.Logf("  wire: inject %d garbage bytes", len(g.b))
	w.schedule(g, w.cfg.base/2+int64(w.c.T.Draw(uint64(w.cfg.base+1))))
}

func minI(a, b int) int {
	if a < b {
		return a
	}
	return b
}

// rxPool is the receiver's datagram buffer pool: a delivery is copied into the next
// buffer (round robin), so the bytes a depacketizer was handed are overwritten R
// deliveries later, or poisoned at a drawn instant in between — the legal behaviour of
// a read loop with pooled buffers.
type rxPool struct {
	c    *core.Ctx
	bufs [][]byte
	next int
}

func newRxPool(c *core.Ctx, r int) *rxPool {
	p := &rxPool{c: c}
	for i := 0; i < r; i++ {
		p.bufs = append(p.bufs, make([]byte, 0, 2048))
	}
	return p
}

// put copies b into the next pool buffer and returns the slice the receiver is handed.
func (p *rxPool) put(b []byte) []byte {
	i := p.next % len(p.bufs)
	p.next++
	if p.next > len(p.bufs) {
		p.c.Fault("recycle")
	}
	if b == nil {
		return nil
	}
	if cap(p.bufs[i]) < len(b) {
		p.bufs[i] = make([]byte, 0, len(b)*2)
	}
	buf := p.bufs[i][:len(b)]
	copy(buf, b)
	return buf
}

// poison overwrites every pool buffer (their full capacity) with 0xEE.
func (p *rxPool) poison() {
	for _, b := range p.bufs {
		full := b[:cap(b)]
		for i := range full {
			full[i] = 0xEE
		}
	}
	p.c.Fault("poison")
	p.c.Ev("poison")
}

// spare hands an input over the way applications often hold it: as a prefix of a larger buffer.
// cap > len, and the bytes beyond len are somebody else's (stale data of the buffer): anything that
// looks at cap(), reslices beyond len or appends in place shows up as wrong output or as damage there.
func spare(t *core.Tape, b []byte) []byte {
	if !t.Chance(1, 3) {
		return b
	}
	extra := 1 + t.Intn(64)
	if t.Chance(1, 4) {
		extra = 1000 + t.Intn(3000)
	}
	buf := make([]byte, len(b)+extra)
	copy(buf, b)
	core.FillBytes(buf[len(b):], t.Draw(0)|1)
	return buf[:len(b)]
}
