package checks

import (
	"bytes"
	"fmt"

	"github.com/pion/rtp"

	"verifsim/core"
)

// C05 — header extension accessors behave as an ordered map that survives the wire.
//
// World: a forwarding node (SFU-like) holds a header in one of the starting states and
// applies a drawn history of Set/Del/Get/GetIDs/Marshal; then the header is sent both as
// Header.Marshal() bytes and inside a packet with a payload over the (fault-free) wire,
// and the receiver decodes it. There is no fault or schedule in this property: what the
// family contributes is seeded search over operation histories against a reference
// model, with shrinking and exact replay.

func init() {
	register(&Check{
		ID:      "C05",
		Tenants: func(c *core.Ctx, i int) tenant { return tenantPacket(c, "ext") }, Level: "exploration", Configs: []string{"clean"},
		Run:         runC05,
		QuickRuns:   3_000_000,
		ThoroughSec: 480,
		Rule: "one run = one header in a drawn starting state (zero value; Extension preset to 0xBEDE / 0x1000 / a legacy profile; obtained from Unmarshal of generated traffic) and a history of " +
			"0-12 operations SetExtension(id in {0,1,2,14,15,16,255,any}, len in {0,1,2,4,16,17,255,256,300,any<=300}) / DelExtension / GetExtension / GetExtensionIDs / Marshal, checked " +
			"op by op against an ordered-list model, then shipped as Header.Marshal() and inside a packet and decoded by a receiver; fingerprint = hash(start state, per-op (kind, id class, " +
			"len class, accepted) sequence); non-trivial = at least one SetExtension or DelExtension was accepted",
		Real: []string{"rtp.Header.SetExtension", "rtp.Header.DelExtension", "rtp.Header.GetExtension", "rtp.Header.GetExtensionIDs", "rtp.Header.Marshal", "rtp.Packet.Marshal", "rtp.Header.Unmarshal", "rtp.Packet.Unmarshal"},
		Stub: []string{"forwarder policy (operation history)", "ordered-list reference model", "wire (identity)"},
		Assumptions: []string{
			"the model follows the return value of Set/Del (the statement does not say which calls must be accepted) and then holds the implementation to the consequences",
			"GetExtensionIDs nil is equivalent to empty",
		},
		ProbeNames: []string{"delete-then-marshal", "set-on-fresh-out-of-range-id", "empty-value-accepted", "replace-then-wire", "legacy-non-multiple-of-4-refused", "start-from-unmarshal"},
	})
}

func c05ID(t *core.Tape) uint8 {
	switch t.Weighted(4, 2, 2, 2, 2, 1, 1, 2) {
	case 0:
		return 1
	case 1:
		return 2
	case 2:
		return 14
	case 3:
		return 0
	case 4:
		return 15
	case 5:
		return 16
	case 6:
		return 255
	}
	return uint8(t.Intn(256))
}

func c05Len(t *core.Tape) int {
	switch t.Weighted(4, 2, 2, 2, 2, 2, 1, 1, 1, 2) {
	case 0:
		return 4
	case 1:
		return 1
	case 2:
		return 0
	case 3:
		return 16
	case 4:
		return 17
	case 5:
		return 2
	case 6:
		return 255
	case 7:
		return 256
	case 8:
		return 300
	}
	return t.Intn(301)
}

func idClass(id uint8) uint64 {
	switch {
	case id == 0:
		return 0
	case id <= 14:
		return 1
	case id == 15:
		return 2
	}
	return 3
}

func lenClass(n int) uint64 {
	switch {
	case n == 0:
		return 0
	case n <= 16:
		return 1
	case n <= 255:
		return 2
	}
	return 3
}

func runC05(c *core.Ctx) {
	t := c.T
	h := &rtp.Header{Version: 2}
	var model []extEl
	start := t.Weighted(3, 2, 2, 1, 2)
	switch start {
	case 1:
		h.Extension, h.ExtensionProfile = true, 0xBEDE
	case 2:
		h.Extension, h.ExtensionProfile = true, 0x1000
	case 3:
		h.Extension, h.ExtensionProfile = true, drawLegacyProfile(t)
	case 4:
		// obtained from Unmarshal of traffic (payload non-empty so that the decode is not the subject here)
		spec := genPacketSpec(t, 40)
		if spec.profile == profNone && t.Bool() {
			spec.profile = profOneByte
			spec.exts = []extEl{{3, []byte{1, 2, 3}}}
		}
		if len(spec.payload) == 0 {
			spec.payload = []byte{9}
		}
		img := spec.encode()
		var pk rtp.Packet
		var err error
		if t.Chance(1, 2) {
			// the receiver was used before (read loops decode into one Packet): an earlier packet with other
			// extensions, or with none, is part of this header's history
			prev := genPacketSpec(t, 20)
			pimg := prev.encode()
			if c.Guard("rtp.Packet.Unmarshal", func() { _ = pk.Unmarshal(pimg) }) {
				return
			}
			c.Probe("start-from-reused-receiver")
			if t.Chance(1, 3) { // ... and the header of interest is the one WITHOUT extensions that follows
				spec.profile, spec.exts = profNone, nil
				img = spec.encode()
			}
		}
		if c.Guard("rtp.Packet.Unmarshal", func() { err = pk.Unmarshal(img) }) || err != nil {
			c.Ev("start-unmarshal-failed")
			return
		}
		hh := pk.Header
		hh.Padding = false // the forwarder re-packs the payload; RTP padding is not the subject here
		h = &hh
		for _, e := range spec.exts {
			model = append(model, extEl{e.id, append([]byte{}, e.val...)})
		}
		c.Probe("start-from-unmarshal")
	}
	c.Logf("start state %d: Extension=%v profile=%#x ids=%v", start, h.Extension, h.ExtensionProfile, modelIDs(model))
	fp := []uint64{uint64(start)}
	accepted := 0
	nops := t.Intn(13)
	find := func(id uint8) int {
		for i, e := range model {
			if e.id == id {
				return i
			}
		}
		return -1
	}
	observe := func(after string) bool {
		var ids []uint8
		if c.Guard("rtp.Header.GetExtensionIDs", func() { ids = h.GetExtensionIDs() }) {
			return false
		}
		if !bytes.Equal(ids, modelIDs(model)) {
			c.Violate("model", "C05/model/ids-differ", "after %s: GetExtensionIDs()=%v, model %v", after, ids, modelIDs(model))
			return false
		}
		for _, e := range model {
			var v []byte
			if c.Guard("rtp.Header.GetExtension", func() { v = h.GetExtension(e.id) }) {
				return false
			}
			if !bytes.Equal(v, e.val) {
				c.Violate("model", "C05/model/value-differs", "after %s: GetExtension(%d) returns %d bytes, model has %d", after, e.id, len(v), len(e.val))
				return false
			}
		}
		return true
	}
	lastDel := false
	callerBufs := map[uint8][]byte{} // id -> the buffer last accepted for it (lookup only)
	if (start == 0 || start == 2) && t.Chance(1, 25) {
		// a crowded header: 100-255 ids with long values (the two-byte form carries up to 255 x 255 octets, well
		// beyond 32 KiB and just short of 64 KiB), set before the drawn history begins
		nb := 100 + t.Intn(156)
		perm := t.Intn(255)
		for j := 0; j < nb; j++ {
			id := uint8(1 + (perm+j*7)%255) // 7 is coprime to 255: distinct ids
			n := 255 - t.Intn(4)
			if t.Chance(1, 4) {
				n = 1 + t.Intn(255)
			}
			val := t.Bytes(n)
			callerBuf := append([]byte{}, val...)
			var err error
			if c.Guard("rtp.Header.SetExtension", func() { err = h.SetExtension(id, callerBuf) }) {
				return
			}
			if err != nil {
				continue
			}
			accepted++
			callerBufs[id] = callerBuf
			if i := find(id); i >= 0 {
				model[i].val = val
			} else {
				model = append(model, extEl{id, val})
			}
		}
		c.Logf("crowded header: %d Set calls, %d ids held", nb, len(model))
		c.Probe("crowded-header")
		fp = append(fp, 7<<8|uint64(nb>>5))
		if !observe("the crowded prelude") {
			return
		}
	}
	for k := 0; k < nops; k++ {
		switch op := t.Weighted(5, 2, 1, 1, 1); op {
		case 0: // SetExtension
			id, n := c05ID(t), c05Len(t)
			val := t.Bytes(n)
			if len(model) > 0 && t.Chance(1, 8) {
				// the same content again for a present id (a sender refreshing an element with an unchanged value)
				e := model[t.Intn(len(model))]
				id, val, n = e.id, append([]byte{}, e.val...), len(e.val)
				c.Probe("set-equal-content-again")
			}
			preExt, preProf := h.Extension, h.ExtensionProfile
			var err error
			// the library is handed the caller's own buffer (it may keep it: that is the documented aliasing);
			// the model keeps a private copy
			callerBuf := append([]byte{}, val...)
			if c.Guard("rtp.Header.SetExtension", func() { err = h.SetExtension(id, callerBuf) }) {
				return
			}
			if err != nil {
				core.FillBytes(callerBuf, 0xEEEE) // a refused value is the caller's again
			} else {
				if old := callerBufs[id]; old != nil {
					core.FillBytes(old, 0xEEEE) // the buffer of the value that was just replaced is recycled
					c.Fault("recycle")
				}
				callerBufs[id] = callerBuf
			}
			c.Ev("set", uint64(id), uint64(n), b2u(err == nil))
			c.Logf("SetExtension(%d, %d bytes) -> %v  (Extension=%v profile=%#x)", id, n, err, h.Extension, h.ExtensionProfile)
			fp = append(fp, 1<<8|idClass(id)<<4|lenClass(n)<<1|b2u(err == nil))
			if err == nil {
				accepted++
				if i := find(id); i >= 0 {
					model[i].val = val
					c.Probe("replace-then-wire")
				} else {
					model = append(model, extEl{id, val})
				}
				if !preExt && (id == 0 || id == 15 || id > 14 && n <= 16) {
					c.Probe("set-on-fresh-out-of-range-id")
				}
				if n == 0 {
					c.Probe("empty-value-accepted")
				}
			} else if h.Extension != preExt || (preExt && h.ExtensionProfile != preProf) {
				c.Violate("model", "C05/error-changed-header", "SetExtension(%d, %d bytes) failed (%v) but changed Extension/ExtensionProfile from %v/%#x to %v/%#x", id, n, err, preExt, preProf, h.Extension, h.ExtensionProfile)
				return
			}
			lastDel = false
		case 1: // DelExtension
			id := c05ID(t)
			if len(model) > 0 && t.Chance(2, 3) {
				id = model[t.Intn(len(model))].id
			}
			var err error
			if c.Guard("rtp.Header.DelExtension", func() { err = h.DelExtension(id) }) {
				return
			}
			c.Ev("del", uint64(id), b2u(err == nil))
			c.Logf("DelExtension(%d) -> %v", id, err)
			fp = append(fp, 2<<8|idClass(id)<<4|b2u(err == nil))
			if err == nil {
				accepted++
				i := find(id)
				if i < 0 {
					c.Violate("model", "C05/model/deleted-absent-id", "DelExtension(%d) returned nil but the id was not present", id)
					return
				}
				model = append(model[:i:i], model[i+1:]...)
				lastDel = true
				if old := callerBufs[id]; old != nil {
					core.FillBytes(old, 0xEEEE) // a deleted value's buffer is the caller's again
					delete(callerBufs, id)
					c.Fault("recycle")
				}
			}
		case 2: // GetExtension of an absent id
			id := c05ID(t)
			var v []byte
			if c.Guard("rtp.Header.GetExtension", func() { v = h.GetExtension(id) }) {
				return
			}
			if find(id) < 0 && len(v) != 0 {
				c.Violate("model", "C05/model/absent-id-has-value", "GetExtension(%d) returns %d bytes for an id the model does not hold", id, len(v))
				return
			}
			fp = append(fp, 3<<8|idClass(id)<<4)
		case 3: // GetExtensionIDs (observe does it)
			fp = append(fp, 4<<8)
		case 4: // Marshal in the middle of the history
			var err error
			if c.Guard("rtp.Header.Marshal", func() { _, err = h.Marshal() }) {
				return
			}
			if lastDel {
				c.Probe("delete-then-marshal")
			}
			c.Logf("Marshal() -> %v", err)
			fp = append(fp, 5<<8|b2u(err == nil))
		}
		if !observe(fmt.Sprintf("operation %d", k)) {
			return
		}
	}
	if accepted > 0 {
		c.Fingerprint(fp...)
	}
	// the wire: Header.Marshal() bytes, and inside a packet with a payload
	var hb, pb []byte
	var herr, perr error
	pk := &rtp.Packet{Header: *h, Payload: []byte{0xAA, 0xBB, 0xCC}}
	if c.Guard("rtp.Header.Marshal", func() { hb, herr = h.Marshal() }) {
		return
	}
	if c.Guard("rtp.Packet.Marshal", func() { pb, perr = pk.Marshal() }) {
		return
	}
	if lastDel {
		c.Probe("delete-then-marshal")
	}
	legacy := h.Extension && h.ExtensionProfile != 0xBEDE && h.ExtensionProfile != 0x1000
	if herr != nil || perr != nil {
		mayRefuse := legacy && len(model) > 0 && len(model[0].val)%4 != 0
		if mayRefuse {
			c.Probe("legacy-non-multiple-of-4-refused")
			return
		}
		c.Violate("wire", "C05/wire/marshal-refused", "Marshal failed (%v / %v) although the profile is %#x with %d accepted element(s)", herr, perr, h.ExtensionProfile, len(model))
		return
	}
	c.Logf("wire: header %d bytes, packet %d bytes, model %v", len(hb), len(pb), modelIDs(model))
	class := c05class(h, model)
	var rh rtp.Header
	var rp rtp.Packet
	var e1, e2 error
	if c.Guard("rtp.Header.Unmarshal", func() { _, e1 = rh.Unmarshal(hb) }) {
		return
	}
	if c.Guard("rtp.Packet.Unmarshal", func() { e2 = rp.Unmarshal(pb) }) {
		return
	}
	if e1 != nil || e2 != nil {
		if class != "" {
			c.Violate("wire", "C05/accepted-not-representable/"+class, "SetExtension accepted an element that its profile cannot carry; the receiver rejects the header (%v / %v)", e1, e2)
			return
		}
		flush := ""
		if e1 != nil && e2 == nil {
			flush = "/ext-flush-with-end"
		}
		c.Violate("wire", "C05/wire/own-header-rejected"+flush, "the receiver rejects what Marshal produced: Header.Unmarshal err=%v, Packet.Unmarshal err=%v (profile %#x, ids %v, header bytes %d)", e1, e2, h.ExtensionProfile, modelIDs(model), len(hb))
		return
	}
	for _, r := range []*rtp.Header{&rh, &rp.Header} {
		for _, e := range model {
			var v []byte
			c.Guard("rtp.Header.GetExtension", func() { v = r.GetExtension(e.id) })
			if !bytes.Equal(v, e.val) {
				if class != "" {
					c.Violate("wire", "C05/accepted-not-representable/"+class, "SetExtension accepted id %d with %d bytes under profile %#x; after Marshal and Unmarshal GetExtension returns %d bytes", e.id, len(e.val), h.ExtensionProfile, len(v))
				} else {
					c.Violate("wire", "C05/wire/value-changed", "id %d: %d bytes were accepted, %d bytes come back after the wire (profile %#x)", e.id, len(e.val), len(v), h.ExtensionProfile)
				}
				return
			}
		}
	}
}

func modelIDs(m []extEl) []uint8 {
	ids := []uint8{}
	for _, e := range m {
		ids = append(ids, e.id)
	}
	return ids
}

// c05class names the first accepted element that its profile cannot represent ("" if
// all are representable).
func c05class(h *rtp.Header, model []extEl) string {
	if !h.Extension {
		return ""
	}
	switch h.ExtensionProfile {
	case 0xBEDE:
		for _, e := range model {
			switch {
			case e.id == 0:
				return "one-byte/id0"
			case e.id == 15:
				return "one-byte/id15"
			case e.id > 15:
				return "one-byte/id>15"
			case len(e.val) == 0:
				return "one-byte/empty"
			case len(e.val) > 16:
				return "one-byte/len>16"
			}
		}
	case 0x1000:
		for _, e := range model {
			switch {
			case e.id == 0:
				return "two-byte/id0"
			case len(e.val) > 255:
				return "two-byte/len>255"
			}
		}
	default:
		if len(model) > 1 {
			return "legacy/more-than-one-element"
		}
		for _, e := range model {
			if e.id != 0 {
				return "legacy/id-not-0"
			}
		}
	}
	return ""
}
