package checks

import (
	"bytes"
	"fmt"
	"unsafe"

	"github.com/pion/rtp"

	"verifsim/core"
)

// C20 — Clone returns an equal, fully independent copy.
//
// World: aggressive receive-buffer recycling (ONE receive buffer). The receiver decodes
// each datagram (the result aliases the receive buffer) and retains Clone() and
// Header.Clone() in a jitter-buffer stub for a drawn number of later deliveries, while
// the wire overwrites the receive buffer and a forwarder mutates either the original or
// the clone.

func init() {
	register(&Check{
		ID:      "C20",
		Tenants: func(c *core.Ctx, i int) tenant { return tenantPacket(c, "clone") }, Level: "exploration", Configs: []string{"clean"},
		Run:         runC20,
		QuickRuns:   300_000,
		ThoroughSec: 480,
		Rule: "one run = a stream of 2-16 generated well-formed packets delivered into ONE recycled receive buffer; each decoded packet is cloned (Packet.Clone, Header.Clone), the clone is retained " +
			"for 1-5 later deliveries (which overwrite the buffer the original aliases); the sender likewise clones packets it built in memory (nil payloads, padding-only packets) into a retransmission buffer; one drawn mutation is applied to the original or to the clone (payload byte, CSRC entry, extension " +
			"value byte through GetExtension, SetExtension of an existing/new id, DelExtension); fingerprint = hash(packet shape, mutation kind, target, retention length); " +
			"non-trivial = the clone outlived a recycle of the buffer or a mutation was applied",
		Real: []string{"rtp.Packet.Clone", "rtp.Header.Clone", "rtp.Packet.Unmarshal", "rtp.Packet.Marshal", "rtp.Header.SetExtension", "rtp.Header.DelExtension", "rtp.Header.GetExtension"},
		Stub: []string{"sender (model encoder)", "one-buffer receive pool (recycle)", "jitter-buffer stub retaining clones", "forwarder mutation policy", "sent-packet model"},
		Assumptions: []string{
			"equality is judged on header fields, CSRC, extension ids/values in order, payload, PaddingSize and on Marshal() bytes; ExtensionProfile only when the X bit is set",
		},
		ProbeNames: []string{"clone-outlived-recycle", "mutate-original-ext-value", "mutate-clone-set-new-id", "packet-with-everything", "sender-nil-payload"},
	})
}

type retained struct {
	spec  *pktSpec // the model: what the clone must keep reporting
	orig  *pktSpec // the packet as sent (never mutated): what Header.Clone() must keep reporting
	cl    *rtp.Packet
	hc    rtp.Header
	img   []byte // Marshal() of the clone at clone time
	until int
	seen  int
}

func runC20(c *core.Ctx) {
	t := c.T
	loop := core.NewLoop(c, 600)
	pool := newRxPool(c, 1)
	var jb []*retained
	rxPkt := &rtp.Packet{}
	npk := 2 + t.Intn(15)
	delivered := 0
	var fp []uint64
	checkClone := func(r *retained, why string) bool {
		// the clone must still be the (model-side) packet and must still marshal to the same bytes
		if k, a, b := c20diff(c, r.cl, r.spec); k != "" {
			c.Violate("independence", fmt.Sprintf("C20/clone-changed/%s/%s", why, k), "a retained clone now has %s=%s, expected %s (%s)", k, a, b, r.spec)
			return false
		}
		var b []byte
		var err error
		if c.Guard("rtp.Packet.Marshal", func() { b, err = r.cl.Marshal() }) {
			return false
		}
		if r.img != nil && (err != nil || !bytes.Equal(b, r.img)) {
			c.Violate("independence", fmt.Sprintf("C20/clone-changed/%s/marshal-bytes", why), "a retained clone serialises differently than at clone time (err %v)", err)
			return false
		}
		hs := *r.orig // Header.Clone() is never mutated: it must keep reporting the header as received
		hs.payload = nil
		hp := &rtp.Packet{Header: r.hc, PaddingSize: hs.padSize}
		if k, a, b := c20diff(c, hp, &hs); k != "" {
			c.Violate("independence", fmt.Sprintf("C20/header-clone-changed/%s/%s", why, k), "a retained Header.Clone() now has %s=%s, expected %s", k, a, b)
			return false
		}
		return true
	}
	w := newWire(c, loop, drawWireCfg(t, "clean"), func(d datagram) {
		if len(c.Viol) > 0 {
			return
		}
		spec := d.meta.(*pktSpec)
		buf := pool.put(d.b) // overwrites the one buffer: every earlier original is now garbage
		delivered++
		for _, r := range jb {
			r.seen++
			c.Probe("clone-outlived-recycle")
			if !checkClone(r, "recycle") {
				return
			}
		}
		// release
		keep := jb[:0]
		for _, r := range jb {
			if r.seen < r.until {
				keep = append(keep, r)
			}
		}
		jb = keep
		orig := rxPkt // ONE long-lived Packet decodes every datagram, as a read loop does: its CSRC/Extensions arrays are reused
		if t.Chance(1, 4) {
			orig = &rtp.Packet{}
		}
		var err error
		if c.Guard("rtp.Packet.Unmarshal", func() { err = orig.Unmarshal(buf) }) {
			return
		}
		if err != nil {
			c.Ev("undecodable")
			return // decoding is C02/C05's subject
		}
		// the packet may have a history before it is cloned: a forwarder that already rewrote an extension
		if t.Chance(1, 3) {
			cp := *spec
			cp.csrc = append([]uint32(nil), spec.csrc...)
			cp.exts = nil
			for _, e := range spec.exts {
				cp.exts = append(cp.exts, extEl{e.id, append([]byte{}, e.val...)})
			}
			cp.payload = append([]byte{}, spec.payload...)
			pre := &retained{spec: &cp, orig: &cp, cl: orig}
			c20mutate(c, t, 4+t.Intn(3), true, &rtp.Packet{}, pre) // mutates orig (as "clone" of a dummy) and the model copy
			spec = &cp
			c.Probe("cloned-after-modification")
		}
		var cl *rtp.Packet
		var hc rtp.Header
		c20preRead(c, t, orig)
		if c.Guard("rtp.Packet.Clone", func() { cl = orig.Clone(); hc = orig.Header.Clone() }) {
			return
		}
		if cl == nil {
			c.Violate("equal", "C20/clone-nil", "Clone returned nil")
			return
		}
		// at clone time: equal to the original (and hence to what was sent), same Marshal() bytes
		if k, a, b := c20diff(c, cl, spec); k != "" {
			c.Violate("equal", "C20/clone-differs-at-clone-time/"+k, "Clone() has %s=%s, the packet has %s (%s)", k, a, b, spec)
			return
		}
		var ob, cb []byte
		var e1, e2 error
		if c.Guard("rtp.Packet.Marshal", func() { ob, e1 = orig.Marshal(); cb, e2 = cl.Marshal() }) {
			return
		}
		if (e1 == nil) != (e2 == nil) || !bytes.Equal(ob, cb) {
			c.Violate("equal", "C20/clone-differs-at-clone-time/marshal-bytes", "original marshals to %d bytes (err %v), its clone to %d bytes (err %v)", len(ob), e1, len(cb), e2)
			return
		}
		if what := c20overlap(c, orig, cl, pool.bufs[0]); what != "" {
			c.Violate("independence", "C20/shared-memory/capacity-overlap/"+what, "right after Clone(), the clone's %s can reach memory of the original (overlapping capacity ranges): an append or write through it lands in the other packet (%s)", what, spec)
			return
		}
		if what := c20overlap(c, orig, &rtp.Packet{Header: hc}, pool.bufs[0]); what != "" {
			c.Violate("independence", "C20/shared-memory/capacity-overlap/header-clone-"+what, "right after Header.Clone(), the clone's %s can reach memory of the original (%s)", what, spec)
			return
		}
		if len(spec.csrc) > 0 && spec.profile != profNone && spec.padSize > 0 && len(spec.payload) > 0 {
			c.Probe("packet-with-everything")
		}
		model := *spec
		model.csrc = append([]uint32(nil), spec.csrc...)
		model.exts = nil
		for _, e := range spec.exts {
			model.exts = append(model.exts, extEl{e.id, append([]byte{}, e.val...)})
		}
		model.payload = append([]byte{}, spec.payload...)
		r := &retained{spec: &model, orig: spec, cl: cl, hc: hc, until: 1 + t.Intn(5)}
		if e2 == nil {
			r.img = cb
		}
		// one to three drawn mutations, on the original and/or on the clone (two appends, one on each side,
		// are what it takes to see a shared backing array with spare capacity)
		mut := t.Intn(7)
		onClone := t.Bool()
		if mut > 0 {
			c20mutate(c, t, mut, onClone, orig, r)
			for extra := t.Weighted(3, 2, 1); extra > 0 && len(c.Viol) == 0; extra-- {
				onClone = !onClone
				c20mutate(c, t, 1+t.Intn(6), onClone, orig, r)
			}
		}
		fp = append(fp, spec.shape()<<8|uint64(mut)<<4|b2u(onClone)<<3|uint64(r.until))
		if !checkClone(r, fmt.Sprintf("mutation%d", mut)) {
			return
		}
		jb = append(jb, r)
	})
	var send func(k int)
	send = func(k int) {
		if k >= npk {
			return
		}
		spec := genPacketSpec(t, 60)
		if len(spec.payload) == 0 && t.Bool() {
			spec.payload = t.Bytes(1 + t.Intn(8))
		}
		// sender side: packets built in memory through the public API (nil payloads and padding-only
		// packets such as GeneratePadding's exist only here) are cloned into a retransmission buffer
		if t.Chance(1, 2) && len(c.Viol) == 0 {
			if t.Chance(1, 300) {
				// extension bodies are not limited to 64 KiB in memory (RFC 3550 counts 32-bit words)
				spec.profile, spec.legacyProfile = profLegacy, 0x0101
				spec.exts = []extEl{{0, t.Bytes(4 * (16384 + t.Intn(64)))}}
				c.Probe("jumbo-extension")
			}
			if (spec.profile == profOneByte || spec.profile == profTwoByte) && len(spec.exts) > 1 && t.Chance(1, 6) {
				// the application fills every element from ONE scratch buffer: all values are prefixes of it,
				// start at the same address and have the same capacity
				scratch := t.Bytes(260)
				for i := range spec.exts {
					spec.exts[i].val = append([]byte{}, scratch[:len(spec.exts[i].val)]...)
				}
				spec.aliasScratch = scratch
				c.Probe("values-from-one-scratch-buffer")
			}
			if pk, ok := spec.buildx(c, t.Bool()); ok {
				if len(spec.payload) == 0 && t.Bool() {
					pk.Payload = nil
					c.Probe("sender-nil-payload")
				}
				var cl *rtp.Packet
				var hc rtp.Header
				c20preRead(c, t, pk)
				if !c.Guard("rtp.Packet.Clone", func() { cl = pk.Clone(); hc = pk.Header.Clone() }) && cl != nil {
					if what := c20overlap(c, pk, cl, nil); what != "" {
						c.Violate("independence", "C20/shared-memory/capacity-overlap/"+what, "right after Clone() of a packet built in memory, the clone's %s can reach memory of the original (%s)", what, spec)
					} else if k2, a, b := c20diff(c, cl, spec); k2 != "" {
						c.Violate("equal", "C20/clone-differs-at-clone-time/"+k2, "Clone() of a packet built in memory has %s=%s, the packet has %s (%s)", k2, a, b, spec)
					} else if n := []int{130, 260, 1030, 4200}[t.Intn(4)]; t.Chance(1, 150) && c20burst(c, t, n) {
						// the clone sits in a retransmission buffer while the process clones thousands of other packets
						c.Probe("clone-retained-across-many-clones")
						if k3, a, b := c20diff(c, cl, spec); k3 != "" {
							c.Violate("independence", "C20/clone-changed/later-clones-of-other-packets/"+k3, "a retained clone has %s=%s after %d later Clone() calls on other packets, expected %s (%s)", k3, a, n, b, spec)
						}
					} else {
						var ob, cb []byte
						var e1, e2 error
						c.Guard("rtp.Packet.Marshal", func() { ob, e1 = pk.Marshal(); cb, e2 = cl.Marshal() })
						if (e1 == nil) != (e2 == nil) || !bytes.Equal(ob, cb) {
							c.Violate("equal", "C20/clone-differs-at-clone-time/marshal-bytes", "a packet built in memory marshals to %d bytes (err %v), its clone to %d bytes (err %v) (%s)", len(ob), e1, len(cb), e2, spec)
						} else {
							model := *spec
							model.csrc = append([]uint32(nil), spec.csrc...)
							model.exts = nil
							for _, e := range spec.exts {
								model.exts = append(model.exts, extEl{e.id, append([]byte{}, e.val...)})
							}
							model.payload = append([]byte{}, spec.payload...)
							r := &retained{spec: &model, orig: spec, cl: cl, hc: hc, until: 1 + t.Intn(4)}
							if e2 == nil {
								r.img = cb
							}
							if mut := t.Intn(7); mut > 0 {
								side := t.Bool()
								c20mutate(c, t, mut, side, pk, r)
								for extra := t.Weighted(3, 2, 1); extra > 0 && len(c.Viol) == 0; extra-- {
									side = !side
									c20mutate(c, t, 1+t.Intn(6), side, pk, r)
								}
							}
							if checkClone(r, "sender") {
								jb = append(jb, r)
							}
						}
					}
				}
			}
		}
		wireSpec := spec
		if (spec.profile == profOneByte || spec.profile == profTwoByte) && len(spec.exts) >= 2 && t.Chance(1, 6) {
			// a peer may repeat an id; such a packet parses and re-marshals byte-exactly (GetExtension sees the first)
			cp := *spec
			cp.exts = append([]extEl(nil), spec.exts...)
			cp.exts[1+t.Intn(len(cp.exts)-1)].id = cp.exts[0].id
			wireSpec = &cp
			c.Probe("duplicate-extension-id")
		}
		if spec.profile == profOneByte && len(spec.exts) >= 1 && len(spec.csrc) < 8 && t.Chance(1, 25) {
			// more one-byte elements than there are ids (14): only a peer can send that, ids repeat necessarily
			cp := *wireSpec
			cp.exts = append([]extEl(nil), wireSpec.exts...)
			for n := 15 + t.Intn(20); len(cp.exts) < n; {
				cp.exts = append(cp.exts, extEl{uint8(1 + t.Intn(14)), t.Bytes(1 + t.Intn(4))})
			}
			wireSpec = &cp
			c.Probe("more-one-byte-elements-than-ids")
		}
		w.Send(datagram{frame: k, b: wireSpec.encode(), meta: wireSpec})
		loop.After(int64(100_000+t.Intn(10_000_000)), func() { send(k + 1) })
	}
	loop.After(0, func() { send(0) })
	loop.Run()
	for _, r := range jb {
		if len(c.Viol) == 0 {
			checkClone(r, "recycle")
		}
	}
	if delivered > 1 && len(fp) > 0 {
		if len(fp) > 8 {
			fp = fp[:8]
		}
		c.Fingerprint(fp...)
	}
}

// c20mutate applies one mutation to the original (the clone must not notice) or to the
// clone (the model follows; the original must not notice).
func c20mutate(c *core.Ctx, t *core.Tape, mut int, onClone bool, orig *rtp.Packet, r *retained) {
	target := orig
	who := "original"
	if onClone {
		target = r.cl
		who = "clone"
	}
	var before []byte
	other := r.cl
	if onClone {
		other = orig
	}
	c.Guard("rtp.Packet.Marshal", func() { before, _ = other.Marshal() })
	sweepBefore := c20sweep(c, other)
	m := r.spec
	kind := ""
	// with a repeated id the accessors address only the first element: keep to payload / CSRC mutations there
	ids := map[uint8]bool{}
	for _, e := range m.exts {
		if ids[e.id] && mut >= 3 {
			mut = 1 + mut%2
		}
		ids[e.id] = true
	}
	switch mut {
	case 1: // payload byte
		kind = "payload-byte"
		if len(target.Payload) > 0 {
			i := t.Intn(len(target.Payload))
			target.Payload[i] ^= 0xFF
			if onClone {
				m.payload[i] ^= 0xFF
			}
		}
	case 2: // CSRC entry
		kind = "csrc-entry"
		if len(target.CSRC) > 0 {
			i := t.Intn(len(target.CSRC))
			target.CSRC[i] ^= 0xFFFFFFFF
			if onClone {
				m.csrc[i] ^= 0xFFFFFFFF
			}
		}
	case 3: // extension value byte through the slice GetExtension returns
		kind = "ext-value-byte"
		if len(m.exts) > 0 {
			j := t.Intn(len(m.exts))
			var v []byte
			c.Guard("rtp.Header.GetExtension", func() { v = target.GetExtension(m.exts[j].id) })
			if len(v) > 0 {
				i := t.Intn(len(v))
				v[i] ^= 0xFF
				if onClone {
					m.exts[j].val[i] ^= 0xFF
				} else {
					c.Probe("mutate-original-ext-value")
				}
			}
		}
	case 4: // SetExtension of an existing id
		kind = "set-existing"
		if len(m.exts) > 0 {
			j := t.Intn(len(m.exts))
			nv := t.Bytes(len(m.exts[j].val))
			var err error
			c.Guard("rtp.Header.SetExtension", func() { err = target.SetExtension(m.exts[j].id, nv) })
			if err == nil && onClone {
				m.exts[j].val = append([]byte{}, nv...)
			}
		}
	case 5: // SetExtension of a new id
		kind = "set-new"
		if m.profile == profOneByte || m.profile == profTwoByte || m.profile == profNone {
			id := uint8(1 + t.Intn(14))
			if m.profile == profTwoByte && t.Bool() {
				id = uint8(1 + t.Intn(255))
			}
			dup := false
			for _, e := range m.exts {
				if e.id == id {
					dup = true
				}
			}
			if !dup {
				nv := t.Bytes(1 + t.Intn(4))
				var err error
				c.Guard("rtp.Header.SetExtension", func() { err = target.SetExtension(id, nv) })
				if err == nil && onClone {
					if m.profile == profNone {
						m.profile = profOneByte // the first element of 1-4 bytes with id 1-14 selects the one-byte form
					}
					m.exts = append(m.exts, extEl{id, append([]byte{}, nv...)})
					c.Probe("mutate-clone-set-new-id")
				}
			}
		}
	case 6: // DelExtension
		kind = "del"
		if len(m.exts) > 0 {
			j := t.Intn(len(m.exts))
			var err error
			c.Guard("rtp.Header.DelExtension", func() { err = target.DelExtension(m.exts[j].id) })
			if err == nil && onClone {
				m.exts = append(m.exts[:j:j], m.exts[j+1:]...)
			}
		}
	}
	if onClone {
		r.img = nil // the clone legitimately marshals differently now; the model is the reference
	}
	c.Ev("mutate", uint64(mut), b2u(onClone))
	c.Logf("mutate %s: %s", who, kind)
	var after []byte
	c.Guard("rtp.Packet.Marshal", func() { after, _ = other.Marshal() })
	if !bytes.Equal(before, after) {
		c.Violate("independence", fmt.Sprintf("C20/shared-memory/mutate-%s/%s", who, kind), "mutating the %s (%s) changed what the other one serialises to", who, kind)
	} else if sweepAfter := c20sweep(c, other); !bytes.Equal(sweepBefore, sweepAfter) {
		c.Violate("independence", fmt.Sprintf("C20/shared-state/mutate-%s/%s", who, kind), "mutating the %s (%s) changed what the other one's accessors return (GetExtensionIDs / GetExtension over all 256 ids)", who, kind)
	}
}

// c20sweep renders everything the extension accessors of p can be asked: the id list and
// GetExtension for every one of the 256 ids (present or not).
func c20sweep(c *core.Ctx, p *rtp.Packet) []byte {
	var d digest
	c.Guard("rtp.Header.GetExtension(all ids)", func() {
		d.bytes(p.GetExtensionIDs())
		for id := 0; id < 256; id++ {
			d.bytes(p.GetExtension(uint8(id)))
		}
	})
	return d.b
}

// c20diff compares a real packet with the model; it returns the first differing field.
func c20diff(c *core.Ctx, p *rtp.Packet, s *pktSpec) (string, string, string) {
	type f struct {
		k    string
		x, y interface{}
	}
	fields := []f{{"Version", p.Version, s.version}, {"Padding", p.Padding, s.padSize > 0}, {"Extension", p.Extension, s.profile != profNone}, {"Marker", p.Marker, s.marker},
		{"PayloadType", p.PayloadType, s.pt}, {"SequenceNumber", p.SequenceNumber, s.seq}, {"Timestamp", p.Timestamp, s.ts}, {"SSRC", p.SSRC, s.ssrc},
		{"CSRC", fmt.Sprint(append([]uint32{}, p.CSRC...)), fmt.Sprint(append([]uint32{}, s.csrc...))}, {"PaddingSize", p.PaddingSize, s.padSize}}
	for _, x := range fields {
		if x.x != x.y {
			return x.k, fmt.Sprint(x.x), fmt.Sprint(x.y)
		}
	}
	if s.profile != profNone {
		want := uint16(0xBEDE)
		if s.profile == profTwoByte {
			want = 0x1000
		} else if s.profile == profLegacy {
			want = s.legacyProfile
		}
		if p.ExtensionProfile != want {
			return "ExtensionProfile", fmt.Sprintf("%#x", p.ExtensionProfile), fmt.Sprintf("%#x", want)
		}
	}
	var ids []uint8
	c.Guard("rtp.Header.GetExtensionIDs", func() { ids = p.GetExtensionIDs() })
	if !bytes.Equal(ids, modelIDs(s.exts)) && !(len(ids) == 0 && len(s.exts) == 0) {
		return "ExtensionIDs", fmt.Sprint(ids), fmt.Sprint(modelIDs(s.exts))
	}
	seenID := map[uint8]bool{}
	for _, e := range s.exts {
		if seenID[e.id] {
			continue // GetExtension returns the first element with an id; later ones are covered by ids and Marshal bytes
		}
		seenID[e.id] = true
		var v []byte
		c.Guard("rtp.Header.GetExtension", func() { v = p.GetExtension(e.id) })
		if !bytes.Equal(v, e.val) {
			return "ExtensionValue", fmt.Sprintf("id %d: %x", e.id, v), fmt.Sprintf("%x", e.val)
		}
	}
	if !bytes.Equal(p.Payload, s.payload) {
		return "Payload", fmt.Sprintf("%x", p.Payload), fmt.Sprintf("%x", s.payload)
	}
	return "", "", ""
}

type memRange struct {
	lo, hi uintptr
	what   string
}

func byteRange(b []byte, what string) memRange {
	if cap(b) == 0 {
		return memRange{}
	}
	p := uintptr(unsafe.Pointer(unsafe.SliceData(b)))
	return memRange{p, p + uintptr(cap(b)), what}
}

// packetRanges lists the capacity ranges of every slice a packet can write through.
func packetRanges(c *core.Ctx, p *rtp.Packet) []memRange {
	var rs []memRange
	rs = append(rs, byteRange(p.Payload, "Payload"))
	if cap(p.CSRC) > 0 {
		lo := uintptr(unsafe.Pointer(unsafe.SliceData(p.CSRC)))
		rs = append(rs, memRange{lo, lo + 4*uintptr(cap(p.CSRC)), "CSRC"})
	}
	if cap(p.Extensions) > 0 {
		lo := uintptr(unsafe.Pointer(unsafe.SliceData(p.Extensions)))
		rs = append(rs, memRange{lo, lo + unsafe.Sizeof(p.Extensions[:1][0])*uintptr(cap(p.Extensions)), "Extensions-array"})
	}
	var ids []uint8
	c.Guard("rtp.Header.GetExtensionIDs", func() { ids = p.GetExtensionIDs() })
	for _, id := range ids {
		var v []byte
		c.Guard("rtp.Header.GetExtension", func() { v = p.GetExtension(id) })
		rs = append(rs, byteRange(v, "extension-value"))
	}
	return rs
}

// c20overlap reports the first slice of the clone whose capacity range intersects memory the
// original can write through (its own slices, or the receive buffer it aliases).
func c20overlap(c *core.Ctx, orig, clone *rtp.Packet, rxbuf []byte) string {
	or := packetRanges(c, orig)
	if rxbuf != nil {
		or = append(or, byteRange(rxbuf[:cap(rxbuf)], "receive-buffer"))
	}
	for _, a := range packetRanges(c, clone) {
		if a.hi == 0 {
			continue
		}
		for _, b := range or {
			if b.hi != 0 && a.lo < b.hi && b.lo < a.hi {
				return a.what
			}
		}
	}
	return ""
}

// c20preRead: the packet is used before it is cloned (accessors called, serialised), so that anything
// the object builds lazily on first use exists at clone time.
func c20preRead(c *core.Ctx, t *core.Tape, p *rtp.Packet) {
	if !t.Chance(1, 2) {
		return
	}
	c.Probe("used-before-clone")
	c.Guard("rtp.Header.(accessors before Clone)", func() {
		ids := p.GetExtensionIDs()
		for _, id := range ids {
			_ = p.GetExtension(id)
		}
		_ = p.GetExtension(uint8(t.Intn(256)))
		_ = p.MarshalSize()
	})
}

// c20burst clones n other small packets (and keeps the results alive until it returns).
func c20burst(c *core.Ctx, t *core.Tape, n int) bool {
	others := make([]*rtp.Packet, 0, 4)
	for i := 0; i < 4; i++ {
		sp := genPacketSpec(t, 24)
		if p, ok := sp.build(c); ok {
			others = append(others, p)
		}
	}
	if len(others) == 0 {
		return false
	}
	keep := make([]*rtp.Packet, 0, n)
	return !c.Guard("rtp.Packet.Clone(burst)", func() {
		for i := 0; i < n; i++ {
			q := others[i%len(others)].Clone()
			if len(q.Payload) > 0 {
				q.Payload[0] ^= byte(i)
			}
			keep = append(keep, q)
		}
	})
}
