package checks

import (
	"bytes"
	"fmt"

	"github.com/pion/rtp/codecs"

	"verifsim/core"
)

// C10 — H264 packetization is lossless and RFC 6184-shaped.
//
// World (fault-free configuration of the codec-level world): a real H264Payloader with
// state across calls (SPS/PPS hold-back) streams access units over a FIFO wire into a
// long-lived real H264Packet fed from recycled receive buffers. A second sender, an
// independent RFC 6184 packetizer, stands in for a foreign peer.

func init() {
	register(&Check{
		ID:      "C10",
		Tenants: func(c *core.Ctx, i int) tenant { return tenantCodec(c, kH264, kH264AVC) }, Level: "exploration", Configs: []string{"clean", "clean", "foreign"},
		Run:         runC10,
		QuickRuns:   600_000,
		ThoroughSec: 600,
		Rule: "one run = one stream of 1-12 access units (1-6 NAL units each: types 1-23, sizes 2..5*MTU around mtu-1/mtu/mtu+1 and k*(mtu-2)+1+-1, 3-/4-byte start codes, " +
			"SPS+PPS pairs adjacent or split across calls, AUD/filler sprinkled), MTU >= 3 biased to 3-40 and 1200, StapA on/off, Annex-B/AVC; config clean = real payloader, " +
			"config foreign = independent RFC 6184 packetizer (single / STAP-A 1-5 units / FU-A incl. empty fragments); fingerprint = hash(mtu class, StapA, AVC, per-unit " +
			"(type class, size relative to mtu) sequence truncated to 16); non-trivial = at least one unit was fragmented or aggregated, or a parameter set crossed a call boundary",
		Real: []string{"codecs.H264Payloader.Payload", "codecs.H264Packet.Unmarshal", "codecs.H264Packet.IsPartitionHead"},
		Stub: []string{"NAL unit source (no start-code emulation, no trailing zero)", "FIFO wire + receive buffer pool", "independent Annex-B / AVC reader", "independent RFC 6184 payload parser and packetizer"},
		Assumptions: []string{
			"NAL unit bodies are free of start-code emulation and of a trailing zero byte (what an H.264 encoder guarantees)",
			"SPS and PPS come in adjacent pairs (possibly split across two calls) followed eventually by another unit; the statement's hold-back semantics are read for such pairs only",
			"the RFC 6184 parser/packetizer of media_h26x.go is the author's reading of the RFC (trusted base)",
		},
		ProbeNames: []string{"unit-eq-mtu", "unit-eq-mtu+1", "sps-one-call-pps-next", "stapa-larger-than-mtu", "four-byte-start-code", "last-fragment-1-byte", "stapa-emitted", "fua-train"},
	})
}

func runC10(c *core.Ctx) {
	t := c.T
	opts := payloaderOpts{kind: kH264, disableStapA: t.Chance(1, 3)}
	avc := t.Chance(1, 3)
	mtu := 3 + []int{9, 0, 1, 2, 5, 20, 37, 1197}[t.Intn(8)] + t.Intn(4)
	loop := core.NewLoop(c, 20000)
	cfg := drawWireCfg(t, "clean")
	pool := newRxPool(c, 1+t.Intn(3))
	rx := &codecs.H264Packet{IsAVC: avc}
	var got []byte // concatenated Unmarshal output of the stream
	rxFailed := false
	w := newWire(c, loop, cfg, func(d datagram) {
		buf := pool.put(d.b)
		var out []byte
		var err error
		if c.Guard("codecs.H264Packet.Unmarshal", func() { out, err = rx.Unmarshal(buf) }) {
			rxFailed = true
			return
		}
		if err != nil {
			rxFailed = true
			c.Violate("decode", "C10/decode/error-on-genuine-payload", "H264Packet rejected a payload of a well-formed stream: %v (payload %.4x… %d bytes)", err, d.b, len(d.b))
			return
		}
		got = append(got, out...) // copy out before the buffer is recycled
	})
	pay := &codecs.H264Payloader{DisableStapA: opts.disableStapA}
	state := 0
	memo := &h264Memo{}
	var expected [][]byte // units the receiver must reproduce, in order
	var fp []uint64
	nontrivial := false
	nAU := 1 + t.Intn(12)
	foreign := c.Config == "foreign"
	// supersede mode: SPS/PPS sprinkled freely, so a held set may be replaced by a later one (by design of
	// the hold-back). The statement's exact-sequence clause is about pairs; what still must hold then is the
	// necessary condition "nothing invented, nothing reordered, no ordinary unit lost".
	supersede := !foreign && !opts.disableStapA && t.Chance(1, 8)
	c.Logf("config=%s mtu=%d stapA=%v avc=%v AUs=%d", c.Config, mtu, !opts.disableStapA, avc, nAU)
	cons := &h264Consumer{c: c, mtu: mtu, stapA: !opts.disableStapA}
	varyMTU := !foreign && mtu < 2000 && t.Chance(1, 6)
	hugeCount := !foreign && !varyMTU && t.Chance(1, 1500)
	if hugeCount {
		mtu = 3 + t.Intn(2)
		cons.mtu = mtu
		loop.MaxEvt = 600000
	}
	var sendAU func(k int)
	sendAU = func(k int) {
		if k >= nAU {
			return
		}
		if varyMTU && k > 0 {
			mtu = 3 + []int{9, 0, 1, 2, 5, 20, 37, 1197}[t.Intn(8)] + t.Intn(4) // the path MTU changed between access units
			cons.mtu = mtu
		}
		gmtu := mtu
		if varyMTU && gmtu > 999 {
			gmtu = 999 // no jumbo units in runs whose MTU may drop to 3 later: a 66 KB unit at 1 byte per fragment outgrows the event budget
		}
		au := genH264AUm(t, gmtu, !foreign, &state, supersede, memo)
		if hugeCount && k == 0 && state == 0 {
			// one unit that needs more than 65535 FU-A fragments (mtu-2 bytes each)
			u := append([]byte{byte(t.Intn(4))<<5 | 5}, nalBody(t, (65530+t.Intn(3000))*(mtu-2))...)
			au.units = [][]byte{u}
			au.annexb = annexB(t, au.units)
			c.Probe("unit-needing-more-than-65535-fragments")
		}
		if state != 0 {
			c.Probe("sps-one-call-pps-next")
			nontrivial = true
		}
		var units [][]byte
		for _, u := range au.units {
			typ := u[0] & 0x1F
			if len(fp) < 16 {
				rel := uint64(3)
				switch {
				case len(u) < mtu-1:
					rel = 0
				case len(u) <= mtu:
					rel = 1
				case len(u) <= mtu+2:
					rel = 2
				}
				fp = append(fp, uint64(typ)<<4|rel)
			}
			if len(u) == mtu {
				c.Probe("unit-eq-mtu")
			}
			if len(u) == mtu+1 {
				c.Probe("unit-eq-mtu+1")
			}
			if typ == 9 || typ == 12 {
				if foreign {
					units = append(units, u) // a foreign peer may send them; the depacketizer passes them through
				}
				continue
			}
			units = append(units, u)
		}
		expected = append(expected, units...)
		var payloads [][]byte
		if foreign {
			payloads = foreignH264(t, units)
		} else {
			if bytes.Contains(au.annexb, []byte{0, 0, 0, 1}) {
				c.Probe("four-byte-start-code")
			}
			input := au.annexb
			if len(au.units) == 1 && t.Chance(1, 4) {
				input = au.units[0] // a single NAL unit handed over without any start code
				c.Probe("raw-unit-without-start-code")
			}
			if c.Guard("codecs.H264Payloader.Payload", func() { payloads = pay.Payload(uint16(mtu), spare(t, input)) }) {
				return
			}
			if !supersede {
				cons.feed(payloads, units)
			}
		}
		c.Logf("AU %d: %d units -> %d payloads %s", k, len(au.units), len(payloads), heads(payloads))
		if !foreign && !opts.disableStapA {
			// would the SPS+PPS STAP-A of this call exceed the MTU?
			var sps, pps []byte
			for _, u := range au.units {
				switch u[0] & 0x1F {
				case 7:
					sps = u
				case 8:
					pps = u
				}
			}
			if sps != nil && pps != nil && 1+2+len(sps)+2+len(pps) > mtu {
				c.Probe("stapa-larger-than-mtu")
			}
		}
		for i, p := range payloads {
			if len(p) > 1 && p[0]&0x1F == 28 {
				nontrivial = true
				c.Probe("fua-train")
			}
			if len(p) > 0 && p[0]&0x1F == 24 {
				nontrivial = true
				c.Probe("stapa-emitted")
			}
			w.Send(datagram{frame: k, idx: i, marker: i == len(payloads)-1, b: p})
		}
		loop.After(int64(1_000_000+t.Intn(30_000_000)), func() { sendAU(k + 1) })
	}
	loop.After(0, func() { sendAU(0) })
	loop.Run()
	if nontrivial {
		c.Fingerprint(append([]uint64{uint64(mtu) / 8, b2u(opts.disableStapA), b2u(avc), b2u(foreign)}, fp...)...)
	}
	if rxFailed || len(c.Viol) > 0 && c.Viol[0].Oracle == "panic" {
		return
	}
	// losslessness: split what the receiver produced and compare with the input units
	var units [][]byte
	var ok bool
	if avc {
		units, ok = splitAVC(got)
	} else {
		units, ok = splitAnnexB4(got)
	}
	if !ok {
		c.Violate("lossless", "C10/nal-sequence/output-not-framed", "receiver output is not a sequence of %s-framed units", map[bool]string{true: "AVC", false: "Annex-B"}[avc])
		return
	}
	for i, u := range units {
		if len(u) == 0 {
			c.Violate("lossless", "C10/nal-sequence/empty-unit", "the receiver produced an empty unit at position %d of %d (mtu %d)", i, len(units), mtu)
			return
		}
	}
	if supersede {
		c.Probe("superseded-parameter-sets")
		// (1) the ordinary units arrive exactly, in order; (2) every received parameter set is one that was
		// sent (held sets may be superseded or delayed past ordinary units by design, never altered)
		var sentOrd, gotOrd, sentPar [][]byte
		for _, u := range expected {
			if typ := u[0] & 0x1F; typ == 7 || typ == 8 {
				sentPar = append(sentPar, u)
			} else {
				sentOrd = append(sentOrd, u)
			}
		}
		for _, u := range units {
			if typ := u[0] & 0x1F; typ == 7 || typ == 8 {
				found := false
				for i, p := range sentPar {
					if p != nil && bytes.Equal(p, u) {
						sentPar[i] = nil
						found = true
						break
					}
				}
				if !found {
					c.Violate("lossless", "C10/nal-sequence/supersede/parameter-set-not-sent", "the receiver produced a parameter set (type %d, %d bytes) that was never sent in this form (mtu %d)", u[0]&0x1F, len(u), mtu)
					return
				}
			} else {
				gotOrd = append(gotOrd, u)
			}
		}
		if len(gotOrd) != len(sentOrd) {
			c.Violate("lossless", "C10/nal-sequence/supersede/ordinary-unit-count", "sent %d ordinary units, received %d (mtu %d)", len(sentOrd), len(gotOrd), mtu)
			return
		}
		for i := range sentOrd {
			if !bytes.Equal(sentOrd[i], gotOrd[i]) {
				c.Violate("lossless", "C10/nal-sequence/supersede/ordinary-unit-differs", "ordinary unit %d differs (type %d, %d vs %d bytes)", i, sentOrd[i][0]&0x1F, len(sentOrd[i]), len(gotOrd[i]))
				return
			}
		}
		// (3) once a SPS and a PPS have both been handed over (in either order, the latest of each counts), they
		// arrive before the next ordinary unit: "SPS/PPS arrive as one STAP-A before the next unit"
		segs := make([][][]byte, 1)
		for _, u := range units {
			if typ := u[0] & 0x1F; typ == 7 || typ == 8 {
				segs[len(segs)-1] = append(segs[len(segs)-1], u)
			} else {
				segs = append(segs, nil)
			}
		}
		has := func(seg [][]byte, u []byte) bool {
			for _, x := range seg {
				if bytes.Equal(x, u) {
					return true
				}
			}
			return false
		}
		var ls, lp []byte
		k := 0
		for _, u := range expected {
			switch u[0] & 0x1F {
			case 7:
				ls = u
			case 8:
				lp = u
			default:
				if ls != nil && lp != nil {
					c.Probe("superseded-pair-due")
					if !has(segs[k], ls) || !has(segs[k], lp) {
						c.Violate("lossless", "C10/nal-sequence/supersede/pair-not-delivered", "a SPS (%d bytes) and a PPS (%d bytes) had both been handed over before ordinary unit %d, but the receiver did not see both before that unit (mtu %d)", len(ls), len(lp), k, mtu)
						return
					}
					ls, lp = nil, nil
				}
				k++
			}
		}
		return
	}
	// parameter sets still held at the end of the stream have not been sent yet
	want := expected
	if !foreign && !opts.disableStapA {
		for len(want) > 0 {
			typ := want[len(want)-1][0] & 0x1F
			if typ != 7 && typ != 8 {
				break
			}
			want = want[:len(want)-1]
		}
	}
	if len(units) == len(want) {
		same := true
		for i := range want {
			if !bytes.Equal(units[i], want[i]) {
				same = false
				c.Violate("lossless", fmt.Sprintf("C10/nal-sequence/unit-differs/%s", c.Config), "unit %d of %d differs: sent type %d len %d, received type %d len %d (mtu %d)", i, len(want), want[i][0]&0x1F, len(want[i]), units[i][0]&0x1F, len(units[i]), mtu)
				break
			}
		}
		_ = same
		return
	}
	// which units are missing?
	j := 0
	var missing [][]byte
	for _, u := range want {
		if j < len(units) && bytes.Equal(units[j], u) {
			j++
		} else {
			missing = append(missing, u)
		}
	}
	onlyParams := len(missing) > 0 && j == len(units)
	stapTooBig := false
	for _, u := range missing {
		if typ := u[0] & 0x1F; typ != 7 && typ != 8 {
			onlyParams = false
		}
	}
	if onlyParams && len(missing) >= 2 && 1+2+len(missing[0])+2+len(missing[1]) > mtu {
		stapTooBig = true
	}
	switch {
	case len(missing) == 0:
		c.Violate("lossless", fmt.Sprintf("C10/nal-sequence/count-differs/%s", c.Config), "sent %d units, received %d: the receiver produced units that were never sent (mtu %d)", len(want), len(units), mtu)
	case onlyParams && stapTooBig:
		c.Violate("lossless", "C10/nal-sequence/sps-pps-missing/stapa>mtu", "%d parameter set(s) never arrived: the SPS+PPS STAP-A (%d bytes) exceeds the MTU %d and was dropped", len(missing), 1+2+len(missing[0])+2+len(missing[1]), mtu)
	case onlyParams:
		c.Violate("lossless", "C10/nal-sequence/sps-pps-missing", "%d parameter set(s) never arrived (mtu %d)", len(missing), mtu)
	default:
		c.Violate("lossless", fmt.Sprintf("C10/nal-sequence/count-differs/%s", c.Config), "sent %d units, received %d (mtu %d, first missing type %d len %d)", len(want), len(units), mtu, missing[0][0]&0x1F, len(missing[0]))
	}
}

// h264Consumer checks the shape of the real payloader's output against the units it
// was given, by the model's RFC 6184 reader.
type h264Consumer struct {
	c       *core.Ctx
	mtu     int
	stapA   bool
	pending [][]byte // units handed to the payloader and not yet seen on the wire
	hp      codecs.H264Packet
}

func (k *h264Consumer) feed(payloads [][]byte, units [][]byte) {
	c := k.c
	k.pending = append(k.pending, units...)
	var fu []byte // body being reassembled
	fuFrags := 0
	fuIdx := 0
	inFU := false
	for pi, p := range payloads {
		if len(p) > k.mtu {
			c.Violate("shape", "C10/shape/payload-exceeds-mtu", "payload %d is %d bytes, MTU %d", pi, len(p), k.mtu)
			return
		}
		var head bool
		c.Guard("codecs.H264Packet.IsPartitionHead", func() { head = k.hp.IsPartitionHead(p) })
		r := parseH264Payload(p)
		switch r.kind {
		case 1, 24:
			if inFU {
				c.Violate("shape", "C10/shape/fua-train-interrupted", "payload %d (type %d) arrives inside an FU-A train", pi, p[0]&0x1F)
				return
			}
			if r.kind == 24 && len(r.units) > 0 && 1+len(r.units) > 0 {
				k.c.Probe("stapa-seen")
			}
			if !head {
				c.Violate("shape", "C10/partition-head/false-on-first-payload-of-unit", "IsPartitionHead is false on a %s payload", map[int]string{1: "single NAL unit", 24: "STAP-A"}[r.kind])
				return
			}
			for _, u := range r.units {
				if !k.take(u, pi) {
					return
				}
			}
		case 28:
			if len(k.pending) == 0 && !inFU {
				c.Violate("shape", "C10/shape/unexpected-payload", "FU-A payload %d but no unit is outstanding", pi)
				return
			}
			if r.s {
				if inFU {
					c.Violate("shape", "C10/shape/fua-start-inside-train", "S bit set on a non-first fragment (payload %d)", pi)
					return
				}
				inFU, fu, fuFrags = true, nil, 0
				// the fragmented unit is the next outstanding one; held-back parameter sets stay outstanding
				fuIdx = 0
				for fuIdx < len(k.pending)-1 && k.pending[fuIdx][0]&0x1F != r.fuType && (k.pending[fuIdx][0]&0x1F == 7 || k.pending[fuIdx][0]&0x1F == 8) {
					fuIdx++
				}
			} else if !inFU {
				c.Violate("shape", "C10/shape/fua-no-start", "FU-A payload %d without a preceding S fragment", pi)
				return
			}
			if head != r.s {
				c.Violate("shape", "C10/partition-head/fua", "IsPartitionHead=%v on an FU-A fragment with S=%v", head, r.s)
				return
			}
			u := k.pending[fuIdx]
			if r.fuType != u[0]&0x1F || r.nri != u[0]>>5&3 || r.f != u[0]>>7 {
				c.Violate("shape", "C10/shape/fua-header-fields", "FU-A indicator/header F=%d NRI=%d type=%d, unit has F=%d NRI=%d type=%d", r.f, r.nri, r.fuType, u[0]>>7, u[0]>>5&3, u[0]&0x1F)
				return
			}
			if r.s && r.e {
				c.Violate("shape", "C10/shape/fua-single-fragment", "FU-A fragment with both S and E")
				return
			}
			fu = append(fu, r.frag...)
			fuFrags++
			if r.e {
				if len(r.frag) == 1 {
					c.Probe("last-fragment-1-byte")
				}
				if fuFrags < 2 {
					c.Violate("shape", "C10/shape/fua-single-fragment", "unit sent as %d FU-A fragment", fuFrags)
					return
				}
				if !bytes.Equal(fu, u[1:]) {
					c.Violate("shape", "C10/shape/fua-concatenation", "FU-A fragments concatenate to %d bytes, unit body is %d", len(fu), len(u)-1)
					return
				}
				k.pending = append(k.pending[:fuIdx:fuIdx], k.pending[fuIdx+1:]...)
				inFU = false
			}
		default:
			c.Violate("shape", "C10/shape/not-single-stapa-fua", "payload %d is neither a single NAL unit, a well-formed STAP-A nor an FU-A (first byte %#x, %d bytes)", pi, first(p), len(p))
			return
		}
	}
	if inFU {
		c.Violate("shape", "C10/shape/fua-no-end", "the last FU-A train of the call has no E fragment")
	}
}

func first(p []byte) byte {
	if len(p) == 0 {
		return 0
	}
	return p[0]
}

// take matches a complete unit seen on the wire against the outstanding units. Held-back
// parameter sets may be skipped over only while they stay outstanding (they are emitted
// later); when a STAP-A cannot fit, both forms are accepted here (the losslessness
// oracle decides whether they arrived at all).
func (k *h264Consumer) take(u []byte, pi int) bool {
	for i, p := range k.pending {
		if bytes.Equal(p, u) {
			k.pending = append(k.pending[:i:i], k.pending[i+1:]...)
			return true
		}
		typ := p[0] & 0x1F
		if typ != 7 && typ != 8 {
			break
		}
	}
	k.c.Violate("shape", "C10/shape/unit-not-expected", "payload %d carries a unit (type %d, %d bytes) that is not the next outstanding unit", pi, u[0]&0x1F, len(u))
	return false
}
