package checks

import (
	"fmt"
	"math/big"
	"time"

	"github.com/pion/rtp"

	"verifsim/core"
)

// C18 — NTP time mapping and send-time estimation recover the original instant.
//
// The clock is the subject: the sender stamps each packet with abs-send-time (sender
// clock) and abs-capture-time (capture clock, with a drawn clock offset), the wire delays
// each packet by a drawn d, the receiver decodes the extensions from the wire image and
// calls Estimate(receiver clock), CaptureTime(), EstimatedCaptureClockOffsetDuration().
// Oracle: exact integer arithmetic on nanoseconds (math/big), never calling pion/rtp.

func init() {
	register(&Check{
		ID:      "C18",
		Tenants: func(c *core.Ctx, i int) tenant { return tenantTime(c) }, Level: "exploration", Configs: []string{"clean"},
		Run:         runC18,
		QuickRuns:   2_000_000,
		ThoroughSec: 480,
		Rule: "one run = one epoch in [1970, 2036-02-07) (biased to whole seconds, +-ticks around multiples of 64 s since the NTP epoch, both ends of the era) and 1-24 packets stamped at " +
			"simulated send instants and delayed by d in [0, 64 s - 2^-18 s) (biased to 0, 1 tick, 64 s - 2 ticks, arrival 0/+-1 tick from the next 64 s boundary, whole seconds; some d >= 64 s " +
			"for no-panic only), capture-clock offsets in (-2^31 s, 2^31 s) biased to 0, +-1 ns, +-1 s -+ 1 ns, +-(2^31 s - 1 ns); fingerprint = hash(boundary relation of send and receive, " +
			"delay class, offset class, sub-tick phase of the send instant (16 classes), whole-second flag); non-trivial = send and receive straddle or touch a 64 s boundary, or the offset is negative, or d is within 2 ticks of a limit",
		Real: []string{"rtp.NewAbsSendTimeExtension", "rtp.AbsSendTimeExtension.Marshal/Unmarshal/Estimate", "rtp.NewAbsCaptureTimeExtension", "rtp.NewAbsCaptureTimeExtensionWithCaptureClockOffset",
			"rtp.AbsCaptureTimeExtension.Marshal/Unmarshal/CaptureTime/EstimatedCaptureClockOffsetDuration", "rtp.Packet.Marshal/Unmarshal", "rtp.Header.SetExtension/GetExtension"},
		Stub: []string{"sender clock, capture clock (offset), receiver clock = simulated time", "wire delay", "exact rational NTP arithmetic (math/big)"},
		Assumptions: []string{
			"sender and receiver share a time base (abs-send-time is an absolute time); the capture clock has the drawn offset",
			"tolerance of Estimate: 2^-18 s (3815 ns, rounded up) + 2 ns for the two floor roundings of the ns <-> 2^-32 s conversions",
		},
		ProbeNames: []string{"send-receive-straddle-64s", "send-exactly-on-boundary", "delay-zero", "negative-offset-zero-fraction", "instant-in-last-second-of-era", "delay-just-below-64s"},
	})
}

const eraEndUnix = 4294967296 - 2208988800 // 2036-02-07 06:28:16 UTC

func nsOf(tm time.Time) *big.Int {
	v := big.NewInt(tm.Unix())
	v.Mul(v, big.NewInt(1_000_000_000))
	return v.Add(v, big.NewInt(int64(tm.Nanosecond())))
}

func absDiffNs(a, b time.Time) *big.Int {
	d := new(big.Int).Sub(nsOf(a), nsOf(b))
	return d.Abs(d)
}

func runC18(c *core.Ctx) {
	t := c.T
	loop := core.NewLoop(c, 400)
	epoch := drawEpoch(t)
	// an extension object that stays alive while the process builds thousands of others (a stamped packet waiting
	// in a pacer queue): whatever storage the constructors recycle after N uses must not be this object's
	if t.Chance(1, 150) {
		capT := epoch.Add(time.Duration(t.Intn(1_000_000_000)))
		off := time.Duration(int64(t.Intn(1<<40)) - 1<<39)
		n := []int{130, 260, 1030, 2100, 4200, 8300}[t.Intn(6)]
		var first, later *time.Duration
		var firstCap, laterCap time.Time
		c.Guard("rtp.NewAbsCaptureTimeExtensionWithCaptureClockOffset(retained)", func() {
			a := rtp.NewAbsCaptureTimeExtensionWithCaptureClockOffset(capT, off)
			first, firstCap = a.EstimatedCaptureClockOffsetDuration(), a.CaptureTime()
			for i := 0; i < n; i++ {
				_ = rtp.NewAbsCaptureTimeExtensionWithCaptureClockOffset(capT.Add(time.Duration(i)), time.Duration(int64(i+1)*7_000_003))
				_ = rtp.NewAbsSendTimeExtension(capT.Add(time.Duration(i)))
			}
			later, laterCap = a.EstimatedCaptureClockOffsetDuration(), a.CaptureTime()
		})
		c.Probe("object-retained-across-many-constructions")
		if first != nil && (later == nil || *later != *first || !laterCap.Equal(firstCap)) {
			c.Violate("offset", "C18/retained-object-changed-by-later-constructions", "an extension built with offset %d ns reads %v after %d later constructions (it read %d ns right after it was built)", int64(off), later, n, int64(*first))
			return
		}
	}
	// receiver-side history: one long-lived struct decoded into again and again (half of the runs), and the
	// value the application kept from the previous packet
	reuseRx := t.Bool()
	var rxCT, prevCT rtp.AbsCaptureTimeExtension
	var prevCap time.Time
	var prevOff *time.Duration
	havePrev := false
	n := 1 + t.Intn(24)
	const tick = 3815 // ~2^-18 s in ns (rounded up)
	const wrap = int64(64_000_000_000)
	c.Logf("epoch=%s packets=%d", epoch.Format(time.RFC3339Nano), n)
	var send func(k int)
	send = func(k int) {
		if k >= n || len(c.Viol) > 0 {
			return
		}
		sendT := epoch.Add(time.Duration(c.Now))
		if !sendT.Before(time.Unix(eraEndUnix, 0).Add(-time.Duration(tick))) {
			return // the send instant itself must lie inside the NTP era (one tick clear of its end); the receive instant may lie beyond it
		}
		ntpSec := sendT.Unix() + 2208988800
		toBoundary := (64-ntpSec%64)*1_000_000_000 - int64(sendT.Nanosecond()) // ns until the next 64 s boundary (1..64e9)
		// delay
		var d int64
		dcls := t.Weighted(3, 2, 2, 2, 3, 2, 1)
		switch dcls {
		case 0:
			d = int64(t.Intn(200_000_000))
		case 1:
			d = 0
			c.Probe("delay-zero")
		case 2:
			d = tick * int64(1+t.Intn(2))
		case 3:
			d = wrap - tick*int64(2+t.Intn(3))
			if t.Bool() {
				d = wrap - tick - 8 - int64(t.Intn(int(3*tick))) // every nanosecond of the last ticks below the bound (8 ns clear of it)
			}
			c.Probe("delay-just-below-64s")
		case 4:
			d = toBoundary + int64(t.Range(-2, 2))*tick
			if d < 0 {
				d = 0
			}
			if d >= wrap-tick {
				d = wrap - 2*tick
			}
		case 5:
			d = int64(t.Intn(63)) * 1_000_000_000
		case 6:
			d = wrap + int64(t.Intn(100_000_000_000)) // beyond the contract: no panic only
		}
		// capture clock
		proc := int64(t.Intn(50_000_000))
		capT := sendT.Add(-time.Duration(proc))
		if capT.Unix() < 0 {
			capT = sendT
		}
		var off time.Duration
		ocls := t.Weighted(3, 2, 2, 2, 2, 2, 3, 3)
		const maxOff = int64(1)<<31*1_000_000_000 - 1
		switch ocls {
		case 0:
			off = time.Duration(t.Intn(2_000_000_000)) - time.Second
		case 1:
			off = 0
		case 2:
			off = time.Duration(t.Range(-1, 1))
		case 3:
			off = time.Duration([]int64{1_000_000_000 - 1, -1_000_000_000 + 1, 1_000_000_000, -1_000_000_000, -5_000_000_000}[t.Intn(5)])
		case 4:
			off = time.Duration(maxOff)
			if t.Bool() {
				// anywhere in the last two seconds below the limit (log-uniform distance), not only the limit itself
				kk := uint(t.Intn(31))
				off -= time.Duration(int64(1)<<kk + int64(t.Draw(uint64(1)<<kk)))
			}
			if t.Bool() {
				off = -off
			}
		case 5:
			off = time.Duration(int64(t.Draw(uint64(maxOff)))) * time.Duration(1-2*t.Intn(2))
		case 7: // log-uniform magnitudes: every power-of-two band of nanoseconds up to 2^31 s
			k := uint(t.Intn(61))
			mag := int64(1)<<k + int64(t.Draw(uint64(1)<<k))
			if mag > maxOff {
				mag = maxOff
			}
			off = time.Duration(mag) * time.Duration(1-2*t.Intn(2))
		case 6: // whole seconds of either sign (zero fractional part), small and large, odd and even
			secs := int64([]int{2, 1, 4, 3600, 1 << 30, 86400, 3}[t.Intn(7)])
			if t.Bool() {
				secs = int64(t.Intn(1 << 31))
			}
			off = time.Duration(secs) * time.Second * time.Duration(1-2*t.Intn(2))
		}
		withOffset := t.Chance(2, 3)
		if off < 0 && off%time.Second == 0 && withOffset {
			c.Probe("negative-offset-zero-fraction")
		}
		if sendT.Nanosecond() == 0 && ntpSec%64 == 0 {
			c.Probe("send-exactly-on-boundary")
		}
		if sendT.Unix() >= eraEndUnix-72 {
			c.Probe("instant-in-last-second-of-era")
		}
		// sender: real extension constructors, real packet, real Marshal
		var img []byte
		pkt := &rtp.Packet{Header: rtp.Header{Version: 2, SequenceNumber: uint16(k), SSRC: 7}, Payload: []byte{1, 2, 3}}
		ok := true
		if c.Guard("rtp.NewAbsSendTimeExtension", func() {
			st := rtp.NewAbsSendTimeExtension(sendT)
			sb, err := st.Marshal()
			var ct *rtp.AbsCaptureTimeExtension
			if withOffset {
				ct = rtp.NewAbsCaptureTimeExtensionWithCaptureClockOffset(capT, off)
			} else {
				ct = rtp.NewAbsCaptureTimeExtension(capT)
			}
			cb, err2 := ct.Marshal()
			if err != nil || err2 != nil || pkt.SetExtension(1, sb) != nil || pkt.SetExtension(2, cb) != nil {
				ok = false
				return
			}
			img, err = pkt.Marshal()
			ok = err == nil
		}) {
			return
		}
		if !ok {
			c.Violate("setup", "C18/setup/cannot-build-packet", "the sender could not build or marshal the stamped packet")
			return
		}
		c.Ev("send", uint64(sendT.UnixNano()), uint64(d))
		// the wire delivers after d; the receiver's clock is the simulated clock
		loop.After(d, func() {
			recvT := epoch.Add(time.Duration(c.Now))
			var rp rtp.Packet
			var est, capGot time.Time
			var offGot *time.Duration
			var err error
			rereadDiffers := false
			keptChanged := false
			if c.Guard("rtp.AbsSendTimeExtension.Estimate", func() {
				if err = rp.Unmarshal(img); err != nil {
					return
				}
				var st rtp.AbsSendTimeExtension
				if err = st.Unmarshal(rp.GetExtension(1)); err != nil {
					return
				}
				est = st.Estimate(recvT)
				var fresh rtp.AbsCaptureTimeExtension
				ct := &fresh
				if reuseRx {
					ct = &rxCT // a read loop decoding every packet into the same struct
				}
				if err = ct.Unmarshal(rp.GetExtension(2)); err != nil {
					return
				}
				capGot = ct.CaptureTime()
				offGot = ct.EstimatedCaptureClockOffsetDuration()
				if havePrev {
					// what the application kept (by value) from the previous packet must not move
					pc, po := prevCT.CaptureTime(), prevCT.EstimatedCaptureClockOffsetDuration()
					if pc != prevCap || (po == nil) != (prevOff == nil) || (po != nil && *po != *prevOff) {
						keptChanged = true
					}
				}
				prevCT, prevCap, havePrev = *ct, capGot, true
				prevOff = nil
				if offGot != nil {
					v := *offGot
					prevOff = &v
				}
				// reading is not supposed to change what is read: a second read, and the wire form afterwards
				again := ct.EstimatedCaptureClockOffsetDuration()
				after, _ := ct.Marshal()
				if (again == nil) != (offGot == nil) || (again != nil && *again != *offGot) || ct.CaptureTime() != capGot {
					rereadDiffers = true
				}
				if !bytesEq(after, rp.GetExtension(2)) && len(rp.GetExtension(2)) == len(after) {
					rereadDiffers = true
				}
			}) {
				return
			}
			if err != nil {
				c.Violate("wire", "C18/wire/decode-error", "the receiver could not decode the stamped packet: %v", err)
				return
			}
			if keptChanged {
				c.Violate("offset", "C18/kept-result-changed-by-later-decode", "an AbsCaptureTimeExtension value kept from the previous packet reads differently after the next packet was decoded (receiver struct reused: %v)", reuseRx)
				return
			}
			if rereadDiffers {
				c.Violate("offset", "C18/offset/changes-when-read-again", "reading the capture time / clock offset a second time (or marshalling after reading) gives a different value (offset %d ns)", int64(off))
				return
			}
			crossed := d >= toBoundary
			if crossed && d < wrap {
				c.Probe("send-receive-straddle-64s")
			}
			phase := uint64(nsOf(sendT).Int64()%tick) * 16 / tick
			if crossed || off < 0 || dcls == 2 || dcls == 3 || dcls == 4 {
				c.Fingerprint(b2u(crossed), uint64(dcls), uint64(ocls), b2u(off < 0), phase, b2u(sendT.Nanosecond() == 0), b2u(withOffset))
			}
			c.Logf("send=%s d=%dns recv=%s -> estimate=%s capture=%s", sendT.Format(time.RFC3339Nano), d, recvT.Format(time.RFC3339Nano), est.UTC().Format(time.RFC3339Nano), capGot.UTC().Format(time.RFC3339Nano))
			if recvT.Unix() >= eraEndUnix {
				c.Probe("receive-beyond-era-end")
			}
			if d < wrap-tick {
				if diff := absDiffNs(est, sendT); diff.Cmp(big.NewInt(tick+2)) > 0 {
					what := "other"
					if diff.Cmp(big.NewInt(63_000_000_000)) > 0 && diff.Cmp(big.NewInt(65_000_000_000)) < 0 {
						what = "off-by-one-wrap"
					} else if diff.Cmp(big.NewInt(100_000)) < 0 {
						what = "off-by-ticks"
					}
					c.Violate("estimate", "C18/estimate/"+what, "send %s, delay %d ns: Estimate returns %s, %s ns away (boundary in %d ns)", sendT.Format(time.RFC3339Nano), d, est.UTC().Format(time.RFC3339Nano), diff, toBoundary)
					return
				}
			}
			if diff := absDiffNs(capGot, capT); diff.Cmp(big.NewInt(1)) > 0 {
				c.Violate("capture", "C18/capture-time/more-than-1ns", "capture instant %s comes back as %s (%s ns away)", capT.Format(time.RFC3339Nano), capGot.UTC().Format(time.RFC3339Nano), diff)
				return
			}
			if withOffset {
				if offGot == nil {
					c.Violate("offset", "C18/offset/missing", "the clock offset did not come back")
					return
				}
				dd := int64(*offGot) - int64(off)
				if dd < -1 || dd > 1 {
					what := "magnitude"
					if int64(*offGot) == -int64(off) {
						what = "sign"
					}
					c.Violate("offset", "C18/offset/"+what, "capture clock offset %d ns comes back as %d ns", int64(off), int64(*offGot))
					return
				}
			} else if offGot != nil && reuseRx {
				// A reused AbsCaptureTimeExtension keeps the offset of an earlier packet when it decodes an
				// extension without one (Unmarshal does not clear the field). The statement is about offsets that
				// were GIVEN; what a reused struct reports when none was sent is outside it: observed, not flagged.
				c.Probe("reused-receiver-keeps-stale-offset")
			} else if offGot != nil {
				c.Violate("offset", "C18/offset/spurious", "a clock offset came back although none was sent")
				return
			}
			if offGot != nil && t.Chance(1, 2) {
				*offGot += 777_000_000_007 // the value that was handed out is the application's: it adjusts it in place
				c.Probe("returned-offset-modified-in-place")
			}
		})
		// next send instant: microseconds to minutes later, sometimes right at the boundary
		var adv int64
		switch t.Weighted(3, 2, 2, 1) {
		case 3: // the last microsecond of the current second
			adv = 1_000_000_000 - int64(sendT.Nanosecond()) - 1 - int64(t.Intn(1000))
			if adv < 0 {
				adv = 0
			}
		case 0:
			adv = int64(1 + t.Intn(30_000_000))
		case 1:
			adv = toBoundary + int64(t.Range(-3, 3))*tick
			if adv < 0 {
				adv = 0
			}
			c.Fault("clock_jump")
		case 2:
			adv = int64(t.Intn(600)) * 1_000_000_000
			c.Fault("clock_jump")
		}
		loop.After(adv, func() { send(k + 1) })
	}
	loop.After(0, func() { send(0) })
	loop.Run()
	_ = fmt.Sprint
}

func bytesEq(a, b []byte) bool {
	if len(a) != len(b) {
		return false
	}
	for i := range a {
		if a[i] != b[i] {
			return false
		}
	}
	return true
}
