package checks

import (
	"verifsim/core"
)

// ---- bit writer (MSB first), independent of codecs/vp9/bits.go ---------------------

type bitWriter struct {
	b    []byte
	nbit int
}

func (w *bitWriter) put(v uint64, n int) {
	for i := n - 1; i >= 0; i-- {
		if w.nbit%8 == 0 {
			w.b = append(w.b, 0)
		}
		if v>>uint(i)&1 == 1 {
			w.b[len(w.b)-1] |= 1 << uint(7-w.nbit%8)
		}
		w.nbit++
	}
}

// ---- VP9 frames: uncompressed header from the VP9 bitstream specification ----------

type vp9Frame struct {
	showExisting bool // show_existing_frame = 1: the whole frame is the 1-2 byte header
	data         []byte
	profile      int
	key          bool
	width        int // coded width  (frame_width_minus_1 + 1), key frames only
	height       int
	colorSpace   int
	hdrBits      int
	// the remaining header fields, kept so that a sibling frame can repeat them
	showFrame, errRes, deep, colorRange, subX, subY int
}

// genVP9Frame writes an uncompressed header (profiles 0-3, key / non-key, all colour
// spaces, 16-bit sizes over the full range) followed by drawn bytes, total size drawn
// around the mtu thresholds.
func genVP9Frame(t *core.Tape, mtu int) vp9Frame { return genVP9FrameLike(t, mtu, nil) }

// genVP9FrameLike: with base != nil the frame is a SIBLING of base — a key frame with the same
// header fields except one (a dimension one off, a flipped low bit, another subsampling) — so that
// consecutive frames share long header prefixes (anything keyed on "the header looks the same").
func genVP9FrameLike(t *core.Tape, mtu int, base *vp9Frame) vp9Frame {
	var f vp9Frame
	w := &bitWriter{}
	f.profile = t.Intn(4)
	f.key = !t.Chance(2, 3) // the zero tape gives a key frame (the richer case)
	sib := base != nil && base.key && !base.showExisting
	tweak := -1
	if sib {
		f.profile, f.key = base.profile, true
		tweak = t.Intn(6)
	}
	pick := func(drawn, from int) int {
		if sib {
			return from
		}
		return drawn
	}
	w.put(2, 2) // frame_marker
	w.put(uint64(f.profile&1), 1)
	w.put(uint64(f.profile>>1), 1)
	if f.profile == 3 {
		w.put(0, 1) // reserved_zero
	}
	if !sib && t.Chance(1, 10) {
		// show_existing_frame = 1, frame_to_show_map_idx f(3): the frame consists of this header only
		w.put(1, 1)
		w.put(uint64(t.Intn(8)), 3)
		f.showExisting, f.key = true, false
		f.hdrBits = w.nbit
		for w.nbit%8 != 0 {
			w.put(0, 1)
		}
		f.data = w.b
		return f
	}
	w.put(0, 1) // show_existing_frame
	if f.key {
		w.put(0, 1) // frame_type = KEY_FRAME
	} else {
		w.put(1, 1)
	}
	f.showFrame = pick(t.Intn(2), ifBase(base).showFrame)
	f.errRes = pick(t.Intn(2), ifBase(base).errRes)
	w.put(uint64(f.showFrame), 1) // show_frame
	w.put(uint64(f.errRes), 1)    // error_resilient_mode
	if f.key {
		w.put(0x49, 8)
		w.put(0x83, 8)
		w.put(0x42, 8)
		f.deep = pick(t.Intn(2), ifBase(base).deep)
		if f.profile >= 2 {
			w.put(uint64(f.deep), 1) // ten_or_twelve_bit
		}
		f.colorSpace = pick(t.Intn(8), ifBase(base).colorSpace)
		w.put(uint64(f.colorSpace), 3)
		f.colorRange = pick(t.Intn(2), ifBase(base).colorRange)
		f.subX, f.subY = pick(t.Intn(2), ifBase(base).subX), pick(t.Intn(2), ifBase(base).subY)
		if tweak == 4 {
			f.subY ^= 1
		}
		if f.colorSpace != 7 {
			w.put(uint64(f.colorRange), 1) // color_range
			if f.profile == 1 || f.profile == 3 {
				w.put(uint64(f.subX), 1) // subsampling_x
				w.put(uint64(f.subY), 1) // subsampling_y
				w.put(0, 1)              // reserved_zero
			}
		} else if f.profile == 1 || f.profile == 3 {
			w.put(0, 1) // reserved_zero
		}
		dim := func() int {
			switch t.Weighted(3, 1, 1, 1, 2) {
			case 0:
				return []int{640, 1280, 1920, 320, 176, 3840}[t.Intn(6)]
			case 1:
				return 1
			case 2:
				return 65536 // frame_width_minus_1 = 0xFFFF
			case 3:
				return 256 * (1 + t.Intn(255))
			}
			return 1 + t.Intn(65536)
		}
		f.width, f.height = dim(), dim()
		if sib {
			f.width, f.height = base.width, base.height
			adj := func(v, d int) int {
				v += d
				if v < 1 {
					v = 2
				}
				if v > 65536 {
					v = 65535
				}
				return v
			}
			switch tweak {
			case 0:
				f.height = adj(f.height, 1)
			case 1:
				f.height = adj(f.height, -1)
			case 2:
				f.width = adj(f.width, []int{1, -1, 256, -256}[t.Intn(4)])
			case 3:
				f.height = ((f.height - 1) ^ (1 << uint(t.Intn(16)))) + 1
			}
		}
		w.put(uint64(f.width-1), 16)
		w.put(uint64(f.height-1), 16)
	}
	f.hdrBits = w.nbit
	// pad the last header byte with drawn bits, then drawn bytes up to the frame size
	for w.nbit%8 != 0 {
		w.put(uint64(t.Intn(2)), 1)
	}
	size := nalSize(t, mtu, len(w.b), []int{3, 11, 3}[t.Intn(3)])
	if t.Chance(1, 1000) && mtu >= 1000 {
		size = 65530 + t.Intn(3000) // frames above 64 KiB exist (key frames); 16-bit length arithmetic must not
	}
	if size < len(w.b)+1 {
		size = len(w.b) + 1
	}
	f.data = append(w.b, t.Bytes(size-len(w.b))...)
	return f
}

func ifBase(b *vp9Frame) *vp9Frame {
	if b == nil {
		return &vp9Frame{}
	}
	return b
}

// ---- VP9 RTP payload descriptor: independent writer --------------------------------

type vp9Desc struct {
	i, p, l, f, b, e, v, z bool
	m                      bool
	pid                    uint16
	tid                    uint8
	u                      bool
	sid                    uint8
	d                      bool
	tl0                    uint8
	pdiff                  []uint8
	ns                     uint8
	y, g                   bool
	ng                     uint8
	w, h                   []uint16
	pgtid                  []uint8
	pgu                    []bool
	pgpdiff                [][]uint8
}

func genVP9Desc(t *core.Tape) (vp9Desc, []byte) {
	var d vp9Desc
	d.i, d.p, d.l, d.f = t.Bool(), t.Bool(), t.Bool(), t.Bool()
	d.b, d.e, d.v, d.z = t.Bool(), t.Bool(), t.Chance(1, 3), t.Bool()
	var b0 byte
	for i, x := range []bool{d.i, d.p, d.l, d.f, d.b, d.e, d.v, d.z} {
		if x {
			b0 |= 0x80 >> uint(i)
		}
	}
	out := []byte{b0}
	if d.i {
		d.m = t.Bool()
		if d.m {
			d.pid = uint16(t.Draw(1 << 15))
			if t.Chance(1, 4) {
				d.pid = uint16([]int{0, 127, 128, 0x7FFF, 0x7F00}[t.Intn(5)])
			}
			out = append(out, 0x80|byte(d.pid>>8), byte(d.pid))
		} else {
			d.pid = uint16(t.Intn(128))
			out = append(out, byte(d.pid))
		}
	}
	if d.l {
		d.tid = uint8(t.Intn(8))
		d.u = t.Bool()
		d.sid = uint8(t.Intn(5)) // pion documents a limit of 5 spatial layers
		d.d = t.Bool()
		x := d.tid<<5 | d.sid<<1
		if d.u {
			x |= 0x10
		}
		if d.d {
			x |= 1
		}
		out = append(out, x)
		if !d.f {
			d.tl0 = uint8(t.Intn(256))
			out = append(out, d.tl0)
		}
	}
	if d.f && d.p {
		n := 1 + t.Intn(3)
		for k := 0; k < n; k++ {
			pd := uint8(t.Intn(128))
			d.pdiff = append(d.pdiff, pd)
			x := pd << 1
			if k < n-1 {
				x |= 1
			}
			out = append(out, x)
		}
	}
	if d.v {
		d.ns = uint8(t.Intn(8))
		d.y, d.g = t.Bool(), t.Bool()
		x := d.ns << 5
		if d.y {
			x |= 0x10
		}
		if d.g {
			x |= 0x08
		}
		out = append(out, x)
		if d.y {
			for k := 0; k <= int(d.ns); k++ {
				w, h := uint16(t.Draw(1<<16)), uint16(t.Draw(1<<16))
				d.w, d.h = append(d.w, w), append(d.h, h)
				out = append(out, byte(w>>8), byte(w), byte(h>>8), byte(h))
			}
		}
		if d.g {
			d.ng = uint8(t.Weighted(2, 3, 2, 1, 1))
			if t.Chance(1, 8) {
				d.ng = uint8(t.Intn(16))
			}
			if t.Chance(1, 12) {
				d.ng = uint8([]int{84, 85, 86, 127, 128, 170, 171, 255}[t.Intn(8)]) // counts whose multiples leave 8 bits
			}
			out = append(out, d.ng)
			for k := 0; k < int(d.ng); k++ {
				tid := uint8(t.Intn(8))
				u := t.Bool()
				r := t.Intn(4)
				x := tid<<5 | uint8(r)<<2
				if u {
					x |= 0x10
				}
				out = append(out, x)
				d.pgtid = append(d.pgtid, tid)
				d.pgu = append(d.pgu, u)
				pd := []uint8{}
				for j := 0; j < r; j++ {
					v := uint8(t.Intn(256))
					pd = append(pd, v)
					out = append(out, v)
				}
				d.pgpdiff = append(d.pgpdiff, pd)
			}
		}
	}
	return d, out
}

// ---- VP8 RFC 7741 payload descriptor: independent writer ---------------------------

type vp8Desc struct {
	x, n, s    uint8
	pid        uint8
	i, l, t, k uint8
	m          bool
	picID      uint16
	tl0        uint8
	tid, y     uint8
	keyidx     uint8
}

func genVP8Desc(t *core.Tape) (vp8Desc, []byte) {
	var d vp8Desc
	d.x = uint8(t.Intn(2))
	d.n = uint8(t.Intn(2))
	d.s = uint8(t.Intn(2))
	d.pid = uint8(t.Intn(8))
	out := []byte{d.x<<7 | d.n<<5 | d.s<<4 | d.pid}
	if d.x == 1 {
		d.i, d.l, d.t, d.k = uint8(t.Intn(2)), uint8(t.Intn(2)), uint8(t.Intn(2)), uint8(t.Intn(2))
		out = append(out, d.i<<7|d.l<<6|d.t<<5|d.k<<4)
		if d.i == 1 {
			d.m = t.Bool()
			if d.m {
				d.picID = uint16(t.Draw(1 << 15))
				if t.Chance(1, 4) {
					d.picID = uint16([]int{0, 127, 128, 0x7FFF, 0x100}[t.Intn(5)])
				}
				out = append(out, 0x80|byte(d.picID>>8), byte(d.picID))
			} else {
				d.picID = uint16(t.Intn(128))
				out = append(out, byte(d.picID))
			}
		}
		if d.l == 1 {
			d.tl0 = uint8(t.Intn(256))
			out = append(out, d.tl0)
		}
		if d.t == 1 || d.k == 1 {
			var b byte
			if d.t == 1 {
				d.tid = uint8(t.Intn(4))
				d.y = uint8(t.Intn(2))
				b |= d.tid<<6 | d.y<<5
			}
			if d.k == 1 {
				d.keyidx = uint8(t.Intn(32))
				b |= d.keyidx
			}
			out = append(out, b)
		}
	}
	return d, out
}
