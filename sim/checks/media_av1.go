package checks

import (
	"verifsim/core"
)

// ---- LEB128, independent of codecs/av1/obu/leb128.go --------------------------------

func leb128(v uint64) []byte {
	var out []byte
	for {
		b := byte(v & 0x7F)
		v >>= 7
		if v != 0 {
			out = append(out, b|0x80)
		} else {
			return append(out, b)
		}
	}
}

// readLeb128 returns value, bytes consumed, ok (at most 8 bytes as in the AV1 spec).
func readLeb128(b []byte) (uint64, int, bool) {
	var v uint64
	for i := 0; i < len(b) && i < 8; i++ {
		v |= uint64(b[i]&0x7F) << uint(7*i)
		if b[i]&0x80 == 0 {
			return v, i + 1, true
		}
	}
	return 0, 0, false
}

// ---- OBUs --------------------------------------------------------------------------

type av1OBU struct {
	typ      byte
	ext      bool
	tid, sid byte
	extRes   byte // extension_header_reserved_3bits
	res1     bool // obu_reserved_1bit
	payload  []byte
	hasSize  bool // as written in the input temporal unit
}

func (o *av1OBU) header(hasSize bool) []byte {
	h := o.typ << 3
	if o.ext {
		h |= 0x04
	}
	if hasSize {
		h |= 0x02
	}
	if o.res1 {
		h |= 0x01
	}
	out := []byte{h}
	if o.ext {
		out = append(out, o.tid<<5|o.sid<<3|o.extRes)
	}
	return out
}

// withSize is the low-overhead form with obu_has_size_field = 1 (what AV1Depacketizer emits).
func (o *av1OBU) withSize() []byte {
	out := o.header(true)
	out = append(out, leb128(uint64(len(o.payload)))...)
	return append(out, o.payload...)
}

// sizeless is the OBU as it travels in an RTP OBU element (size flag cleared).
func (o *av1OBU) sizeless() []byte { return append(o.header(false), o.payload...) }

func (o *av1OBU) dropped() bool { return o.typ == 2 || o.typ == 8 } // temporal delimiter, tile list

// genAV1TU draws a temporal unit of 1-8 OBUs and its byte stream. Size fields are on all
// OBUs or omitted on the last.
func genAV1TU(t *core.Tape, mtu int) ([]av1OBU, []byte) {
	n := 1 + t.Intn(8)
	many := t.Chance(1, 40) // dozens of small OBUs in one unit (metadata, tile groups): counts beyond the 2-bit W field
	if many {
		n = 9 + t.Intn(40)
	}
	obus := make([]av1OBU, 0, n)
	omitLastSize := t.Chance(1, 3)
	curT, curS := byte(t.Intn(8)), byte(t.Intn(4))
	for i := 0; i < n; i++ {
		var o av1OBU
		if i > 0 && t.Chance(1, 10) && len(obus[i-1].payload) < 4000 {
			// a sibling of the previous OBU: same header, payload equal or different in one byte / in length by one
			o = obus[i-1]
			o.payload = append([]byte(nil), o.payload...)
			switch t.Intn(4) {
			case 1:
				if len(o.payload) > 0 {
					o.payload[t.Intn(len(o.payload))] ^= 1 << uint(t.Intn(8))
				}
			case 2:
				if len(o.payload) > 0 {
					o.payload = o.payload[:len(o.payload)-1]
				}
			case 3:
				o.payload = append(o.payload, byte(t.Intn(256)))
			}
			o.hasSize = !(omitLastSize && i == n-1)
			obus = append(obus, o)
			continue
		}
		switch t.Weighted(6, 1, 1, 1, 1, 2) {
		case 0:
			o.typ = byte([]int{6, 3, 4, 5, 7, 15}[t.Intn(6)])
		case 1:
			o.typ = 1 // sequence header
		case 2:
			o.typ = 2 // temporal delimiter
		case 3:
			o.typ = 8 // tile list
		case 4:
			o.typ = byte([]int{0, 9, 10, 11, 12, 13, 14}[t.Intn(7)]) // reserved types
		case 5:
			o.typ = byte(t.Intn(16))
		}
		if t.Chance(1, 2) {
			o.ext = true
			if t.Chance(1, 3) {
				curT, curS = byte(t.Intn(8)), byte(t.Intn(4))
			}
			o.tid, o.sid = curT, curS
			if t.Chance(1, 8) {
				o.extRes = byte(t.Intn(8))
			}
		}
		o.res1 = t.Chance(1, 8)
		var size int
		switch t.Weighted(3, 1, 1, 2, 2, 1, 1, 1) {
		case 7:
			// the transmitted element (header, extension, payload) is a whole number of full packets, give or take two
			size = (1+t.Intn(4))*(mtu-1) - 4 + t.Intn(5)
		case 0:
			size = 1 + t.Intn(12)
		case 1:
			size = 0
		case 2:
			size = 126 + t.Intn(4)
			if mtu < 16 { // keep trains of tiny MTUs short: cost, not coverage (LEB128 edges need a 2-byte length anyway)
				size = t.Intn(4 * mtu)
			}
		case 3:
			size = mtu - 3 + t.Intn(5)
		case 4:
			size = mtu + t.Intn(3*mtu+1)
		case 5:
			size = 16382 + t.Intn(4)
			if mtu < 400 {
				size = 8*mtu + t.Intn(5)
			}
		case 6:
			size = t.Intn(2*mtu + 1)
		}
		if many && size > 40 {
			size = t.Intn(24)
		}
		if size < 0 {
			size = 0
		}
		if size > 140000 {
			size = 140000
		}
		if mtu >= 60000 && t.Chance(1, 40) {
			size = 1<<21 - 3 + t.Intn(6) // the 3-byte / 4-byte LEB128 boundary of an OBU size
		}
		o.payload = t.Bytes(size)
		o.hasSize = !(omitLastSize && i == n-1)
		obus = append(obus, o)
	}
	var stream []byte
	for i := range obus {
		o := &obus[i]
		if o.hasSize {
			stream = append(stream, o.withSize()...)
		} else {
			stream = append(stream, o.sizeless()...)
		}
	}
	return obus, stream
}

// ---- AV1 RTP payload: independent aggregation-header reader -------------------------

type av1Payload struct {
	z, y, n bool
	w       int
	elems   [][]byte
	ok      bool
	why     string
}

func parseAV1Payload(p []byte) av1Payload {
	var r av1Payload
	if len(p) < 1 {
		r.why = "empty"
		return r
	}
	r.z = p[0]&0x80 != 0
	r.y = p[0]&0x40 != 0
	r.w = int(p[0] >> 4 & 3)
	r.n = p[0]&0x08 != 0
	q := p[1:]
	for i := 1; len(q) > 0; i++ {
		if r.w != 0 && i == r.w {
			r.elems = append(r.elems, q)
			q = nil
			break
		}
		l, n, ok := readLeb128(q)
		if !ok {
			r.why = "bad element length"
			return r
		}
		q = q[n:]
		if l > uint64(len(q)) {
			r.why = "element length exceeds payload"
			return r
		}
		r.elems = append(r.elems, q[:l])
		q = q[l:]
	}
	if r.w != 0 && len(r.elems) != r.w {
		r.why = "W does not equal the number of elements"
		return r
	}
	r.ok = true
	return r
}

// genAV1Aimed builds a temporal unit by feedback: a few small OBUs, whose packing is MEASURED
// (measure returns the length of the last payload the payloader under test produces for a stream)
// and then adjusted until the open packet has exactly F bytes left, F at a LEB128 boundary of the
// element length field (1..4, 127..130, 16383..16386); then an OBU about as large as that space.
// Aggregation decisions that depend on "how much room is left" are wrong at such points or nowhere.
func genAV1Aimed(t *core.Tape, mtu int, measure func([]byte) int) ([]av1OBU, []byte, bool) {
	var fit []int
	for _, f := range []int{1, 2, 3, 4, 127, 128, 129, 130, 16383, 16384, 16385, 16386} {
		if f+12 < mtu {
			fit = append(fit, f)
		}
	}
	if len(fit) == 0 {
		return nil, nil, false
	}
	free := fit[t.Intn(len(fit))] + []int{0, 0, 1, 2, -1}[t.Intn(5)]
	if free < 1 {
		free = 1
	}
	k := 1 + t.Intn(4)
	ext := t.Chance(1, 3)
	tid, sid := byte(t.Intn(8)), byte(t.Intn(4))
	obus := make([]av1OBU, k)
	for i := range obus {
		obus[i] = av1OBU{typ: byte([]int{6, 3, 4, 5, 1}[t.Intn(5)]), ext: ext, tid: tid, sid: sid, payload: t.Bytes(1 + t.Intn(6)), hasSize: true}
	}
	build := func(list []av1OBU) []byte {
		var s []byte
		for i := range list {
			if list[i].hasSize {
				s = append(s, list[i].withSize()...)
			} else {
				s = append(s, list[i].sizeless()...)
			}
		}
		return s
	}
	last := &obus[k-1]
	ok := false
	for iter := 0; iter < 5; iter++ {
		l := measure(build(obus))
		if l <= 0 || l > mtu {
			return nil, nil, false
		}
		delta := (mtu - free) - l
		if delta == 0 {
			ok = true
			break
		}
		n := len(last.payload) + delta
		if n < 0 || n > 70000 {
			return nil, nil, false
		}
		last.payload = t.Bytes(n)
	}
	if !ok {
		return nil, nil, false
	}
	size := free + []int{0, -1, -2, -3, 1, 2, 40, 300}[t.Intn(8)]
	if size < 0 {
		size = 0
	}
	obus = append(obus, av1OBU{typ: 6, ext: ext, tid: tid, sid: sid, payload: t.Bytes(size), hasSize: true})
	if t.Chance(1, 2) {
		obus = append(obus, av1OBU{typ: 6, ext: ext, tid: tid, sid: sid, payload: t.Bytes(1 + t.Intn(20)), hasSize: !t.Chance(1, 3)})
	}
	return obus, build(obus), true
}
