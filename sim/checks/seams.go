package checks

import (
	"verifsim/core"
)

// tapeRand is what the simulator plugs into the library's random seam
// (rtp.VerifSetRandom): every value comes from the tape, biased to the edges of the range.
type tapeRand struct{ t *core.Tape }

func (r tapeRand) Intn(n int) int {
	if n <= 0 {
		return 0
	}
	switch r.t.Weighted(2, 1, 1, 1, 1) {
	case 1:
		return n - 1
	case 2:
		return r.t.Intn(n)
	case 3:
		if n > 1<<15 {
			return 1<<15 - 1
		}
		return n / 2
	case 4:
		if n > 2 {
			return n - 2
		}
	}
	return 0
}
func (r tapeRand) Uint32() uint32 {
	switch r.t.Weighted(2, 1, 1) {
	case 1:
		return 0xFFFFFFFF - uint32(r.t.Intn(4))
	case 2:
		return uint32(r.t.Draw(1 << 32))
	}
	return 0
}
func (r tapeRand) Uint64() uint64 { return r.t.Draw(0) }
func (r tapeRand) GenerateString(n int, runes string) string {
	b := make([]byte, n)
	for i := range b {
		b[i] = runes[r.t.Intn(len(runes))]
	}
	return string(b)
}
