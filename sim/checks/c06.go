package checks

import (
	"bytes"
	"fmt"
	"math/big"
	"time"

	"github.com/pion/rtp"

	"verifsim/core"
)

// C06 — Packetizer emits a valid, MTU-bounded, correctly numbered packet train.
//
// World: one real packetizer per run with its real sequencer; the library's random source
// is the VerifSetRandom seam (tape values), its clock the VerifSetPacketizerClock seam
// reading the simulated clock; the payloader is a simulator-owned stub or a real payloader
// behind a recording proxy (the rtp.Payloader interface is the seam). Operations happen
// at simulated instants that the event loop advances (including across 64 s NTP wraps).

func init() {
	register(&Check{
		ID:      "C06",
		Tenants: func(c *core.Ctx, i int) tenant { return tenantPacketizer(c) }, Level: "exploration", Configs: []string{"clean"},
		Run:         runC06,
		QuickRuns:   150_000,
		ThoroughSec: 600,
		Rule: "one run = one packetizer (MTU in [64,65535] biased 64/100/1200/1500, fixed sequencer start biased to 65535-k or random sequencer through the random seam, stub payloader " +
			"returning drawn fragment lists incl. none and fragments of exactly MTU-12, or each real payloader behind a recording proxy) driven through 1-40 operations among Packetize, " +
			"SkipSamples, GeneratePadding, EnableAbsSendTime(0..255, mostly 0..14) at simulated instants (clock jumps from microseconds to hours, backward steps of the wall clock, epochs biased to 64 s NTP wraps), with every returned packet retained and re-serialised after later calls; fingerprint = " +
			"hash(payloader kind, mtu class, abs-send-time, per-op (kind, #packets class, wrap flags) truncated to 14); non-trivial = a sequence or timestamp wrap, a multi-packet train, " +
			"padding packets, or abs-send-time was exercised",
		Real: []string{"rtp.NewPacketizer", "rtp.Packetizer.Packetize", "rtp.Packetizer.SkipSamples", "rtp.Packetizer.GeneratePadding", "rtp.Packetizer.EnableAbsSendTime",
			"rtp.NewFixedSequencer", "rtp.NewRandomSequencer", "rtp.Packet.Marshal", "rtp.Packet.Unmarshal", "rtp.AbsSendTimeExtension", "codecs.*Payloader (behind a recording proxy)"},
		Stub: []string{"simulated clock (timegen seam)", "random source (rand seam)", "stub payloader", "recording payloader proxy", "train model (seq, ts, marker, ssrc, pt, abs-send-time)", "independent RFC 3550 reader"},
		Assumptions: []string{
			"the running timestamp is taken from the first packet seen (the statement fixes only how it advances)",
			"the abs-send-time value may differ by 1 tick (2^-18 s) from floor(NTP*2^18) mod 2^24 so that a rounding implementation is not flagged",
			"neither the budget handed to the payloader nor the number of Payload calls is asserted; len <= MTU is asserted whenever every fragment returned was within the budget the payloader was handed (and <= MTU-12)",
		},
		ProbeNames: []string{"seq-wrap-inside-call", "ts-wrap", "payloader-returned-nothing", "fragment-eq-mtu-12", "abs-send-time-near-64s-wrap", "padding-after-packetize", "enable-then-disable"},
	})
}

type recPayloader struct {
	inner rtp.Payloader
	stub  func(mtu uint16, payload []byte) [][]byte
	last  [][]byte // what the payloader returned during the current Packetize call (private copies)
	mtus  []uint16
	calls int
}

func (r *recPayloader) Payload(mtu uint16, payload []byte) [][]byte {
	var out [][]byte
	if r.inner != nil {
		out = r.inner.Payload(mtu, payload)
	} else {
		out = r.stub(mtu, payload)
	}
	r.calls++
	r.mtus = append(r.mtus, mtu)
	for _, f := range out {
		r.last = append(r.last, append([]byte{}, f...))
	}
	return out
}

// drawEpoch draws the run's epoch in [1970-01-01, 2036-02-07 06:28:16), biased to whole
// seconds, to a few ticks around multiples of 64 s since the NTP epoch, and to the ends.
func drawEpoch(t *core.Tape) time.Time {
	const ntpOff = 2208988800 // seconds between 1900 and 1970
	const maxUnix = 4294967296 - ntpOff
	switch t.Weighted(3, 3, 2, 1, 1) {
	case 0:
		return time.Unix(int64(1_000_000_000+t.Intn(700_000_000)), 0).UTC()
	case 1:
		// a multiple of 64 s since the NTP epoch, minus/plus a few ticks or microseconds
		k := int64(t.Intn(maxUnix/64 - 1))
		unix := (k+1)*64 - ntpOff%64
		for unix < 0 {
			unix += 64
		}
		off := int64(t.Range(-5, 5)) * 3815 // about one 2^-18 s tick
		if t.Bool() {
			off = -int64(t.Intn(2_000_000_000))
		}
		tm := time.Unix(unix, 0).Add(time.Duration(off))
		if tm.Unix() < 0 {
			tm = time.Unix(64-ntpOff%64, 0)
		}
		return tm.UTC()
	case 2:
		return time.Unix(int64(t.Intn(maxUnix-4000)), int64(t.Intn(1_000_000_000))).UTC()
	case 3:
		return time.Unix(int64(t.Intn(100)), int64(t.Intn(1_000_000_000))).UTC()
	}
	if t.Bool() {
		return time.Unix(maxUnix-66+int64(t.Intn(64)), int64(t.Intn(1_000_000_000))).UTC() // the last minute of the NTP era
	}
	return time.Unix(maxUnix-4000+int64(t.Intn(300)), int64(t.Intn(1_000_000_000))).UTC()
}

// ntpTicks18 returns floor(NTP(t) * 2^18) mod 2^24 by exact integer arithmetic.
func ntpTicks18(tm time.Time) uint64 {
	ns := big.NewInt(tm.Unix())
	ns.Add(ns, big.NewInt(2208988800))
	ns.Mul(ns, big.NewInt(1_000_000_000))
	ns.Add(ns, big.NewInt(int64(tm.Nanosecond())))
	ns.Lsh(ns, 18)
	ns.Div(ns, big.NewInt(1_000_000_000))
	ns.And(ns, big.NewInt(0xFFFFFF))
	return ns.Uint64()
}

func runC06(c *core.Ctx) {
	t := c.T
	restore := rtp.VerifSetRandom(tapeRand{t})
	defer restore()
	loop := core.NewLoop(c, 400)
	epoch := drawEpoch(t)
	mtu := []int{1200, 64, 100, 1500, 65535, 0, -1}[t.Weighted(4, 3, 3, 2, 1, 2, 1)]
	if mtu == 0 {
		mtu = 64 + t.Intn(65535-64+1)
	}
	if mtu == -1 {
		mtu = 12 + 253 + t.Intn(6) // MTU - 12 around the largest padding count a packet can carry (255)
	}
	pt := uint8(t.Intn(128))
	ssrc := uint32(t.Draw(1 << 32))
	var sq rtp.Sequencer
	if t.Chance(1, 4) {
		c.Guard("rtp.NewRandomSequencer", func() { sq = rtp.NewRandomSequencer() })
	} else {
		start := uint16(65535 - t.Intn(8))
		if t.Chance(1, 3) {
			start = uint16(t.Draw(1 << 16))
		}
		c.Guard("rtp.NewFixedSequencer", func() { sq = rtp.NewFixedSequencer(start) })
	}
	if sq == nil {
		return
	}
	rec := &recPayloader{}
	kind := -1 // stub
	var gen *mediaGen
	if t.Chance(1, 2) {
		kind = []int{kG711, kG722, kOpus, kH264, kH265, kVP8, kVP9, kVP9Flex, kAV1Dep, kH265DONL}[t.Intn(10)]
		opts := drawPayloaderOpts(t, kind)
		rec.inner = opts.build()
		gen = &mediaGen{kind: kind}
	} else {
		rec.stub = func(m uint16, payload []byte) [][]byte {
			if t.Chance(1, 3000) {
				// a train longer than the 16-bit sequence space (tiny fragments): every counter wraps inside the call
				out := make([][]byte, 65536+t.Intn(5000))
				for i := range out {
					out[i] = []byte{byte(i), byte(i >> 8)}
				}
				c.Probe("train-longer-than-65535")
				return out
			}
			n := t.Weighted(4, 1, 3, 2)
			switch n {
			case 0:
				n = 1
			case 1:
				n = 0
			case 2:
				n = 2 + t.Intn(4)
			case 3:
				n = 1 + t.Intn(12)
			}
			out := make([][]byte, n)
			for i := range out {
				l := 1 + t.Intn(int(m))
				if t.Chance(1, 3) {
					l = int(m) // exactly MTU-12
				}
				out[i] = t.Bytes(l)
				if t.Chance(1, 12) {
					out[i] = t.Bytes(0) // an empty fragment is still a fragment: it gets its packet, and if it is the last one, the marker
					if t.Bool() {
						out[i] = nil
					}
					c.Probe("empty-fragment-from-payloader")
				}
			}
			return out
		}
	}
	var pk rtp.Packetizer
	if c.Guard("rtp.NewPacketizer", func() { pk = rtp.NewPacketizer(uint16(mtu), pt, ssrc, rec, sq, 90000) }) {
		return
	}
	var clockReads []time.Time
	var skew int64 // wall-clock steps (NTP adjustments): the sender's clock is simulated time plus a skew that may go backwards
	type keptPacket struct {
		p    *rtp.Packet
		wire []byte
		call int
	}
	var kept []keptPacket // packets returned by earlier calls, as a sender's retransmission buffer holds them
	if !rtp.VerifSetPacketizerClock(pk, func() time.Time {
		now := epoch.Add(time.Duration(c.Now + skew))
		clockReads = append(clockReads, now)
		return now
	}) {
		panic("VerifSetPacketizerClock: not a *packetizer")
	}
	c.Logf("mtu=%d pt=%d ssrc=%#x payloader=%d epoch=%s", mtu, pt, ssrc, kind, epoch.Format(time.RFC3339Nano))
	// model
	seqKnown, tsKnown := false, false
	var seq uint16
	var ts, tsAlt uint32
	tsAltOK := false // after an empty-payload call the running timestamp is ts or tsAlt
	absID := 0
	nops := 1 + t.Intn(40)
	var fp []uint64
	nontrivial := false
	everEnabled, afterPacketize := false, false
	checkWire := func(p *rtp.Packet, what string) ([]byte, bool) {
		var b []byte
		var err error
		if c.Guard("rtp.Packet.Marshal", func() { b, err = p.Marshal() }) {
			return nil, false
		}
		if err != nil {
			c.Violate("wire", "C06/"+what+"/marshal-error", "a packet returned by the packetizer does not serialise: %v", err)
			return nil, false
		}
		return b, true
	}
	var step func(k int)
	step = func(k int) {
		if k >= nops || len(c.Viol) > 0 {
			return
		}
		op := t.Weighted(6, 1, 1, 1, 1)
		switch op {
		case 4: // Packetize with a nil or empty payload: legal, returns nothing
			var payload []byte
			if t.Bool() {
				payload = []byte{}
			}
			samples := uint32([]int{960, 3000, 1}[t.Intn(3)])
			var pkts []*rtp.Packet
			if c.Guard("rtp.Packetizer.Packetize", func() { pkts = pk.Packetize(payload, samples) }) {
				return
			}
			c.Logf("Packetize(empty payload, %d samples) -> %d packets", samples, len(pkts))
			if len(pkts) != 0 {
				c.Violate("train", "C06/train/packets-for-empty-payload", "Packetize of an empty payload returned %d packets", len(pkts))
				return
			}
			// the statement does not say whether such a call advances the timestamp by its samples: both are accepted
			if tsKnown && !tsAltOK {
				tsAlt, tsAltOK = ts+samples, true
			} else if tsKnown {
				tsKnown, tsAltOK = false, false // two undetermined calls in a row: re-learn the timestamp from the next packet
			}
			c.Probe("empty-payload-call")
			fp = append(fp, 5<<8)
		case 0: // Packetize
			budget := mtu - 12
			var payload []byte
			if gen != nil {
				payload = gen.next(t, minI(budget, 1400))
			} else {
				payload = t.Bytes(1 + t.Intn(40))
			}
			if len(payload) == 0 {
				payload = []byte{1}
			}
			samples := uint32(t.Draw(1 << 32))
			if !t.Chance(1, 4) {
				samples = uint32([]int{960, 3000, 1, 0, 90000}[t.Intn(5)])
			}
			rec.last, rec.mtus = nil, nil
			clockReads = clockReads[:0]
			var pkts []*rtp.Packet
			if c.Guard("rtp.Packetizer.Packetize", func() { pkts = pk.Packetize(spare(t, payload), samples) }) {
				return
			}
			frags := rec.last
			c.Ev("packetize", uint64(len(payload)), uint64(samples), uint64(len(pkts)))
			c.Logf("Packetize(%d bytes, %d samples) -> %d packets (payloader returned %d fragments, budgets %v)", len(payload), samples, len(pkts), len(frags), rec.mtus)
			if len(frags) == 0 {
				c.Probe("payloader-returned-nothing")
			}
			if len(pkts) != len(frags) {
				c.Violate("train", "C06/train/packet-count", "payloader returned %d fragments, Packetize %d packets", len(frags), len(pkts))
				return
			}
			// the size bound is owed whenever every fragment respected the budget the payloader was
			// handed (an oversize fragment is a payloader matter: C08, or Opus' documented exemption)
			handed := mtu - 12
			for _, m := range rec.mtus {
				if int(m) < handed {
					handed = int(m)
				}
			}
			allFit := true
			for _, f := range frags {
				if len(f) > handed {
					allFit = false
				}
				if len(f) == mtu-12 {
					c.Probe("fragment-eq-mtu-12")
				}
			}
			for i, p := range pkts {
				last := i == len(pkts)-1
				if p == nil {
					c.Violate("train", "C06/train/nil-packet", "packet %d is nil", i)
					return
				}
				if !bytes.Equal(p.Payload, frags[i]) {
					c.Violate("train", "C06/train/fragment-changed", "packet %d carries %d bytes, the payloader's fragment %d has %d", i, len(p.Payload), i, len(frags[i]))
					return
				}
				if !seqKnown {
					seq, seqKnown = p.SequenceNumber, true
				}
				if p.SequenceNumber != seq {
					c.Violate("train", "C06/train/sequence-number", "packet %d of the call has sequence number %d, expected %d", i, p.SequenceNumber, seq)
					return
				}
				seq++
				if seq == 0 && !last {
					c.Probe("seq-wrap-inside-call")
					nontrivial = true
				}
				if !tsKnown {
					ts, tsKnown = p.Timestamp, true
				}
				if tsAltOK {
					if p.Timestamp == tsAlt {
						ts = tsAlt
					}
					tsAltOK = false
				}
				if p.Timestamp != ts {
					c.Violate("train", "C06/train/timestamp", "packet %d has timestamp %d, the running timestamp is %d", i, p.Timestamp, ts)
					return
				}
				if p.Version != 2 || p.SSRC != ssrc || p.PayloadType != pt || p.Padding || p.PaddingSize != 0 || len(p.CSRC) != 0 {
					c.Violate("train", "C06/train/fixed-fields", "packet %d: version %d ssrc %#x pt %d padding %v/%d csrc %d (configured ssrc %#x pt %d)", i, p.Version, p.SSRC, p.PayloadType, p.Padding, p.PaddingSize, len(p.CSRC), ssrc, pt)
					return
				}
				if p.Marker != last {
					c.Violate("train", "C06/train/marker", "packet %d of %d has marker=%v", i, len(pkts), p.Marker)
					return
				}
				// abs-send-time: only on the last packet, under the configured id, holding the send instant
				var ids []uint8
				c.Guard("rtp.Header.GetExtensionIDs", func() { ids = p.GetExtensionIDs() })
				wantExt := absID != 0 && last
				if !wantExt && len(ids) != 0 {
					c.Violate("abs-send-time", "C06/abs-send-time/unexpected-extension", "packet %d of %d carries extension ids %v (abs-send-time id %d)", i, len(pkts), ids, absID)
					return
				}
				if wantExt {
					nontrivial = true
					var v []byte
					c.Guard("rtp.Header.GetExtension", func() { v = p.GetExtension(uint8(absID)) })
					if len(ids) != 1 || ids[0] != uint8(absID) || len(v) != 3 {
						c.Violate("abs-send-time", "C06/abs-send-time/missing-or-wrong-id", "last packet carries extension ids %v, value %d bytes; abs-send-time is enabled under id %d", ids, len(v), absID)
						return
					}
					if len(clockReads) == 0 {
						c.Violate("abs-send-time", "C06/abs-send-time/clock-not-read", "abs-send-time was stamped without reading the packetizer's clock during the call")
						return
					}
					got := uint64(v[0])<<16 | uint64(v[1])<<8 | uint64(v[2])
					okv := false
					for _, rd := range clockReads {
						want := ntpTicks18(rd)
						d := (got - want) & 0xFFFFFF
						if d == 0 || d == 1 || d == 0xFFFFFF {
							okv = true
						}
						if want <= 2 || want >= 0xFFFFFD {
							c.Probe("abs-send-time-near-64s-wrap")
						}
					}
					if !okv {
						c.Violate("abs-send-time", "C06/abs-send-time/value", "abs-send-time %#06x, the clock returned %s during the call = %#06x", got, clockReads[0].Format(time.RFC3339Nano), ntpTicks18(clockReads[0]))
						return
					}
				}
				b, ok := checkWire(p, "packet")
				if !ok {
					return
				}
				if len(kept) < 400 {
					kept = append(kept, keptPacket{p: p, wire: b, call: k})
				}
				if allFit && len(b) > mtu {
					what := "packet"
					if wantExt {
						what = "last-packet/abs-send-time"
					}
					c.Violate("mtu", "C06/size>mtu/"+what, "packet %d of %d serialises to %d bytes, MTU %d (fragment %d bytes <= MTU-12)", i, len(pkts), len(b), mtu, len(frags[i]))
					return
				}
				var back rtp.Packet
				var uerr error
				if c.Guard("rtp.Packet.Unmarshal", func() { uerr = back.Unmarshal(b) }) {
					return
				}
				if uerr != nil {
					c.Violate("wire", "C06/packet/does-not-parse-back", "a packet of the train (%d bytes on the wire, payload %d) does not parse back: %v", len(b), len(p.Payload), uerr)
					return
				}
				if k2, a2, b2 := c02diffHeader(c, &p.Header, &back.Header); k2 != "" || !bytes.Equal(back.Payload, p.Payload) || back.PaddingSize != 0 {
					c.Violate("wire", "C06/packet/parses-back-different", "packet parses back with %s=%s (sent %s), payload %d/%d", k2, b2, a2, len(back.Payload), len(p.Payload))
					return
				}
			}
			if len(pkts) > 1 {
				nontrivial = true
			}
			if tsKnown {
				if uint64(ts)+uint64(samples) > 0xFFFFFFFF {
					c.Probe("ts-wrap")
					nontrivial = true
				}
				ts += samples
			}
			afterPacketize = true
			fp = append(fp, 1<<8|uint64(minI(len(pkts), 3))<<2|b2u(absID != 0))
		case 1: // SkipSamples
			n := uint32(t.Draw(1 << 32))
			if !t.Chance(1, 3) {
				n = uint32(t.Intn(100000))
			}
			if c.Guard("rtp.Packetizer.SkipSamples", func() { pk.SkipSamples(n) }) {
				return
			}
			c.Logf("SkipSamples(%d)", n)
			if tsKnown {
				if uint64(ts)+uint64(n) > 0xFFFFFFFF {
					c.Probe("ts-wrap")
				}
				ts += n
				tsAlt += n
			}
			fp = append(fp, 2<<8)
		case 2: // GeneratePadding
			n := t.Intn(5)
			if t.Chance(1, 1500) {
				n = []int{65535, 65536, 65537, 70000}[t.Intn(4)] // a burst longer than the sequence-number space
				c.Probe("padding-burst-beyond-16-bit")
			}
			var pkts []*rtp.Packet
			if c.Guard("rtp.Packetizer.GeneratePadding", func() { pkts = pk.GeneratePadding(uint32(n)) }) {
				return
			}
			c.Logf("GeneratePadding(%d) -> %d packets", n, len(pkts))
			if len(pkts) != n {
				c.Violate("padding", "C06/padding-packet/count", "GeneratePadding(%d) returned %d packets", n, len(pkts))
				return
			}
			if n > 0 {
				nontrivial = true
				if afterPacketize {
					c.Probe("padding-after-packetize")
				}
			}
			for i, p := range pkts {
				if p == nil {
					c.Violate("padding", "C06/padding-packet/nil", "padding packet %d is nil", i)
					return
				}
				if !seqKnown {
					seq, seqKnown = p.SequenceNumber, true
				}
				if p.SequenceNumber != seq {
					c.Violate("padding", "C06/padding-packet/sequence-number", "padding packet %d has sequence number %d, expected %d", i, p.SequenceNumber, seq)
					return
				}
				seq++
				b, ok := checkWire(p, "padding-packet")
				if !ok {
					return
				}
				if len(kept) < 400 {
					kept = append(kept, keptPacket{p: p, wire: b, call: k})
				}
				r, okp := parseRTP(b)
				if !okp || !r.padding || len(r.payload) != 0 || r.padSize != len(b)-r.hdrLen || r.version != 2 || r.padSize == 0 {
					c.Violate("padding", "C06/padding-packet/not-padding-only", "padding packet serialises to %d bytes that an RFC 3550 reader sees as: well-formed=%v P=%v payload=%d padding=%d header=%d", len(b), okp, r.padding, len(r.payload), r.padSize, r.hdrLen)
					return
				}
			}
			fp = append(fp, 3<<8|uint64(n))
		case 3: // EnableAbsSendTime
			// ids 1-14 use the one-byte form; 15-255 are legal abs-send-time ids too (two-byte form)
			id := t.Intn(15)
			switch t.Weighted(6, 3, 1, 1, 1) {
			case 1:
				id = 0
			case 2:
				id = 15
			case 3:
				id = 16 + t.Intn(240)
			case 4:
				id = 255
			}
			if c.Guard("rtp.Packetizer.EnableAbsSendTime", func() { pk.EnableAbsSendTime(id) }) {
				return
			}
			c.Logf("EnableAbsSendTime(%d)", id)
			if id == 0 && everEnabled {
				c.Probe("enable-then-disable")
			}
			if id != 0 {
				everEnabled = true
			}
			absID = id
			fp = append(fp, 4<<8|b2u(id != 0))
		}
		// packets handed out by earlier calls stay what they were (a sender keeps them for retransmission)
		if t.Chance(1, 4) || k == nops-1 {
			for _, kp := range kept {
				var b []byte
				var err error
				if c.Guard("rtp.Packet.Marshal", func() { b, err = kp.p.Marshal() }) {
					return
				}
				if err != nil || !bytes.Equal(b, kp.wire) {
					c.Violate("train", "C06/returned-packet-changed-by-later-call", "a packet returned by call %d serialises differently after call %d (err %v)", kp.call, k, err)
					return
				}
			}
		}
		// the wall clock may be stepped, backwards too (clock skew and jumps)
		if t.Chance(1, 8) {
			skew -= []int64{40_000, 1_000_000, 1_000_000_000, 70_000_000_000, 3_815}[t.Intn(5)]
			if epoch.Add(time.Duration(c.Now+skew)).Unix() < 1 {
				skew = 0
			}
			c.Fault("clock_step_back")
			c.Logf("clock stepped back, skew now %d ns", skew)
		}
		// the clock moves: microseconds to hours, sometimes exactly onto the next 64 s boundary
		var adv int64
		switch t.Weighted(4, 2, 1, 1) {
		case 0:
			adv = int64(1000 + t.Intn(40_000_000))
		case 1:
			adv = int64(t.Intn(1000))
		case 2:
			adv = int64(t.Intn(7200)) * 1_000_000_000
			c.Fault("clock_jump")
		case 3:
			now := epoch.Add(time.Duration(c.Now + skew))
			ntpSec := now.Unix() + 2208988800
			adv = (64-ntpSec%64)*1_000_000_000 - int64(now.Nanosecond()) + int64(t.Range(-3, 3))*3815
			if adv < 0 {
				adv = 0
			}
			c.Fault("clock_jump")
		}
		loop.After(adv, func() { step(k + 1) })
	}
	loop.After(0, func() { step(0) })
	loop.Run()
	if nontrivial {
		if len(fp) > 14 {
			fp = fp[:14]
		}
		c.Fingerprint(append([]uint64{uint64(kind + 1), uint64(mtu / 64)}, fp...)...)
	}
	_ = fmt.Sprint
}
